/-
  EG.Driver.Styled — model side of the `styled.*` correspondence streams (harness/src/m_styled.rs).

  A shape kind is served by giving its `StyledView` (what the streams observe of a styled shape)
  as a function of the translation applied to the primitive; the result lines are formatted from
  the view exactly as `execute` in m_styled.rs formats the real results. Kinds without a model
  return `none` (printed `skip`). Modelled kinds: `rect` (EG.Model.StyledRect), `circle`, `ellipse`,
  `rrect` (EG.Model.Circle / Ellipse / RoundedRect).
-/
import EG.Driver.Util
import EG.Model.StyledRect
import EG.Model.CallTranslate
import EG.Model.Circle
import EG.Model.Ellipse
import EG.Model.RoundedRect
namespace EG.Driver
open EG

/-- What the `styled.*` streams observe of one styled shape. -/
private structure StyledView where
  calls : List Call     -- `draw()` as target calls
  pixels : Writes       -- `pixels()`
  bbox : Rect           -- `bounding_box()` of the styled shape
  fa : Rect             -- `fill_area().bounding_box()`
  sa : Rect             -- `stroke_area().bounding_box()`

private def parseOptColor (s : String) : Option Color := if s == "-" then none else some (parseNat s)

private def alignOf : Nat → StrokeAlignment | 0 => .inside | 1 => .center | _ => .outside

/-- style tokens: `fill stroke width align`. -/
private def Toks.style (t : Toks) : Style × Toks :=
  let (f, t) := t.str
  let (s, t) := t.str
  let (w, t) := t.nat
  let (a, t) := t.nat
  (⟨parseOptColor f, parseOptColor s, w, alignOf a⟩, t)

/-- `Rec::unbounded()` of the harness. -/
private def unboundedBox : Rect := ⟨⟨-1048576, -1048576⟩, ⟨2097152, 2097152⟩⟩

/-- Canonical map left on `R1` (draw_iter only, box `B`) / `R2` (native fills) by a call list. -/
private def mapDefault (B : Rect) (calls : List Call) : List (Pt × Nat) :=
  canonPix (calls.flatMap (Call.writesDefault B))
private def mapNative (B : Rect) (calls : List Call) : List (Pt × Nat) :=
  canonPix (calls.flatMap (Call.writesNative B))

/-- Call log of `R1`: every call arrives as `draw_iter` and is logged with all pixels offered
(also those outside the box). -/
private def fmtLogR1 (B : Rect) (calls : List Call) : String :=
  if calls.isEmpty then "-"
  else "|".intercalate (calls.map (fun c => "di:" ++ fmtPix (c.lowerDefault B)))

private def shiftPix (d : Pt) (m : List (Pt × Nat)) : List (Pt × Nat) := m.map (fun w => (w.1 + d, w.2))

private def b01 (b : Bool) : String := if b then "1" else "0"

/-- Result line of one `styled.*` op from the view of the shape (`view d` = the view of the
primitive translated by `d`); `t` = the tokens after the style. -/
private def styledResult (stream : String) (view : Pt → StyledView) (t : Toks) : Option String :=
  let v := view ⟨0, 0⟩
  match stream with
  | "styled.paths" =>
    let (tb, _) := t.rect
    let m1 := mapDefault tb v.calls
    let m2 := mapNative tb v.calls
    let mp := mapDefault tb [Call.drawIter v.pixels]
    let l1 := fmtLogR1 tb v.calls
    some s!"r1={smallMap m1} r2eq={b01 (m1 == m2)} pxeq={b01 (m1 == mp)} log={smallText l1 4000}"
  | "styled.bbox" =>
    let m := mapDefault unboundedBox v.calls
    let out := m.filter (fun w => !v.bbox.contains w.1)
    some s!"bb={fmtRect v.bbox} n={m.length} h={pixDigest m} out={out.length}"
  | "styled.areas" =>
    let m := mapDefault unboundedBox v.calls
    some s!"m={smallMap m} fa={fmtRect v.fa} sa={fmtRect v.sa}"
  | "styled.translate" =>
    let (d, _) := t.pt
    let vd := view d
    let m0 := mapDefault unboundedBox v.calls
    let md := mapDefault unboundedBox vd.calls
    some s!"n={m0.length} h={pixDigest m0} shifted={b01 (md == shiftPix d m0)} bb={fmtRect v.bbox} bbd={fmtRect vd.bbox}"
  | _ => none

private def rectView (s : Style) (r : Rect) : StyledView :=
  { calls := StyledRect.drawCalls s r
    pixels := StyledRect.pixelsList s r
    bbox := StyledRect.styledBoundingBox s r
    fa := StyledRect.fillArea s r
    sa := StyledRect.strokeArea s r }

private def primStyle (s : Style) : PrimStyle := ⟨s.fill, s.stroke, s.width, s.align⟩

private def circleView (s : Style) (c : Circle) : StyledView :=
  let st := primStyle s
  { calls := c.drawStyled st
    pixels := c.styledPixels st
    bbox := c.styledBoundingBox st
    fa := (c.fillArea st).boundingBox
    sa := (c.strokeArea st).boundingBox }

private def ellipseView (s : Style) (e : Ellipse) : StyledView :=
  let st := primStyle s
  { calls := e.drawStyled st
    pixels := e.styledPixels st
    bbox := e.styledBoundingBox st
    fa := (e.fillArea st).boundingBox
    sa := (e.strokeArea st).boundingBox }

private def rrectView (s : Style) (r : RoundedRect) : StyledView :=
  { calls := r.drawStyled s
    pixels := r.styledPixels s
    bbox := r.styledBoundingBox s
    fa := (r.fillArea s).boundingBox
    sa := (r.strokeArea s).boundingBox }

def handleStyled (stream : String) (t : Toks) : Option String :=
  if !stream.startsWith "styled." then none else
  let (kind, t) := t.str
  match kind with
  | "rect" =>
    let (r, t) := t.rect
    let (s, t) := t.style
    styledResult stream (fun d => rectView s (r.translate d)) t
  | "circle" =>
    let (p, t) := t.pt
    let (d0, t) := t.nat
    let (s, t) := t.style
    styledResult stream (fun d => circleView s ((⟨p, d0⟩ : Circle).translate d)) t
  | "ellipse" =>
    let (p, t) := t.pt
    let (sz, t) := t.sz
    let (s, t) := t.style
    styledResult stream (fun d => ellipseView s ((⟨p, sz⟩ : Ellipse).translate d)) t
  | "rrect" =>
    let (r, t) := t.rect
    let (tl, t) := t.sz
    let (tr, t) := t.sz
    let (br, t) := t.sz
    let (bl, t) := t.sz
    let (s, t) := t.style
    styledResult stream (fun d => rrectView s ((⟨r, ⟨tl, tr, br, bl⟩⟩ : RoundedRect).translate d)) t
  | _ => none

end EG.Driver
