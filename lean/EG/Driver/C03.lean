/-
  EG.Driver.C03 — model side of the C03 correspondence streams (harness/src/c03.rs).
-/
import EG.Driver.Util
namespace EG.Driver
open EG

def c03 (_stream : String) (_t : Toks) : Option String := none

end EG.Driver
