/-
  EG.Driver.Thick — model side of the `thick.*` correspondence streams (harness/src/m_thick.rs).
-/
import EG.Driver.Util
namespace EG.Driver
open EG

def handleThick (_stream : String) (_t : Toks) : Option String := none

end EG.Driver
