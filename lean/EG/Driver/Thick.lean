/-
  EG.Driver.Thick — model side of the `thick.*` correspondence streams (harness/src/m_thick.rs).
-/
import EG.Driver.Line
import EG.Model.ThickLine
import EG.Model.ThickSkips
import EG.Model.ThickPolyline
import EG.Model.ThickTriangle
import EG.Model.JoinGuards
namespace EG.Driver
open EG

/-- `n` points from the token list. -/
private def takePts : Nat → Toks → List Pt × Toks
  | 0, t => ([], t)
  | n + 1, t =>
    let (p, t) := t.pt
    let (ps, t) := takePts n t
    (p :: ps, t)

/-- A rectangle list as a point list `tl, (w, h), tl, (w, h), ..` (digested like a point list). -/
private def rectsAsPts (rs : List Rect) : List Pt :=
  rs.flatMap (fun r => [r.tl, (⟨(r.size.w : Int), (r.size.h : Int)⟩ : Pt)])

private def fmtPolyDraw : Joins.PolyDraw → String
  | .nothing => "-"
  | .drawIter pts => "di:" ++ fmtPtsDigest pts
  | .fillSolids [] => "-"        -- no call at all: the log is empty
  | .fillSolids rs => "fs:" ++ fmtPtsDigest (rectsAsPts rs)

/-- `-` or a colour number. -/
private def optColor (t : Toks) : Option Nat × Toks :=
  let (s, t) := t.str
  (if s == "-" then none else some (parseNat s), t)

/-- `fill_solid` calls with colours as the point list `tl, (w, colour), ..` (the height is 1). -/
private def colRectsAsPts (rs : List (Rect × Nat)) : List Pt :=
  rs.flatMap (fun (r, c) => [r.tl, (⟨(r.size.w : Int), (c : Int)⟩ : Pt)])

/-- Coloured pixels as the point list `p, (colour, 0), ..`. -/
private def colPixAsPts (ps : List (Pt × Nat)) : List Pt :=
  ps.flatMap (fun (p, c) => [p, (⟨(c : Int), 0⟩ : Pt)])

private def kindChar : Joins.JoinKind → Char
  | .miter => 'M'
  | .bevel .left => 'b'
  | .bevel .right => 'B'
  | .degenerate .left => 'd'
  | .degenerate .right => 'D'
  | .colinear => 'C'
  | .start => 'S'
  | .stop => 'E'

/-- Kinds of the interior joins of a polyline and its number of skeleton segments. -/
private def polyKinds (vs : List Pt) (w : Nat) : Option (String × Nat) := do
  let it ← Joins.ThickSegmentIter.new vs w
  let segs ← it.toList
  let ks := segs.dropLast.map (fun s => kindChar s.endJoin.kind)
  pure (if ks.isEmpty then "-" else String.ofList ks, (segs.filter (·.isSkeleton)).length)

/-- Kinds of the three joins of the clockwise-sorted triangle and `is_collapsed`. -/
private def triKinds (t : Joins.Tri) (w : Nat) (off : Thick.StrokeOffset) : Option (String × Bool) := do
  let tc := t.sortedClockwise
  let j0 ← Joins.LineJoin.fromPoints (tc.vertex 0) (tc.vertex 1) (tc.vertex 2) w off
  let j1 ← Joins.LineJoin.fromPoints (tc.vertex 1) (tc.vertex 2) (tc.vertex 3) w off
  let j2 ← Joins.LineJoin.fromPoints (tc.vertex 2) (tc.vertex 3) (tc.vertex 4) w off
  let c ← tc.isCollapsed w off
  pure (String.ofList [kindChar j0.kind, kindChar j1.kind, kindChar j2.kind], c)

private def stuckOr (o : Option String) : String :=
  match o with
  | some s => s
  | none => "stuck"

/-- One guard bit: `1` holds, `0` fails, `-` the theorem's other hypotheses exclude the op. -/
private def guardBit (applies : Bool) (b : Bool) : Char :=
  if !applies then '-' else if b then '1' else '0'

/-- Guard bits of a `thick.polyline` op, in this order (tools/check.py `GUARD_BITS` names them):
`PolyRectsInRange` (Props/C01/Polyline.lean), `PolyBBoxGuard`, its `chainOK` conjunct alone
(Props/C02/JoinsBBox.lean; both `-` for widths < 2, which the guarded theorems exclude). The Bool
functions are proved equivalent to the guards in Props/C01/GuardBits.lean, Props/C02/GuardBits.lean. -/
private def polyGuardBits (pl : Polyline) (w : Nat) (dr : Joins.PolyDraw) : String :=
  String.ofList [
    guardBit true (Joins.GuardBits.polyRectsInRange dr),
    guardBit (2 ≤ w) (Joins.GuardBits.polyBBoxGuard pl w),
    guardBit (2 ≤ w) (Joins.GuardBits.polyChainOK pl w)]

/-- Guard bits of a `thick.triangle` op, in this order: `TriRectsInRange` (Props/C01/Triangle.lean),
`TriTopGuard`, `TriStrokeGuard`, its three `adjOK` conjuncts alone (both `-` unless the width is >= 2
and the alignment is not Inside: the other hypotheses of the two guarded theorems), `TriOutlineGuard`
(Props/C02/JoinsBBox.lean; `-` unless the width is >= 2, the alignment is Inside and the triangle is not
collapsed: the one case no unguarded theorem covers, see the `[V]` line there), `TriStrokeColumnsGuard`
(Props/C02/JoinsBBoxAlign.lean: `TriStrokeGuard` with the vertex clause weakened to the columns of the box;
sixth bit, tools/check.py reports it as `bit 5`; `-` like `TriStrokeGuard`). `collapsed` is
`is_collapsed` of the clockwise-sorted triangle, the `c=` field of the result line. -/
private def triGuardBits (tri : Joins.Tri) (style : Joins.TriStyle) (calls : List (Rect × Nat))
    (collapsed : Bool) : String :=
  let wide := decide (2 ≤ style.strokeWidth)
  let inside := style.strokeAlignment == .inside
  String.ofList [
    guardBit true (Joins.GuardBits.triRectsInRange calls),
    guardBit true (Joins.GuardBits.triTopGuard tri),
    guardBit (wide && !inside) (Joins.GuardBits.triStrokeGuard tri style),
    guardBit (wide && !inside) (Joins.GuardBits.triAdjOK tri style),
    guardBit (wide && inside && !collapsed) (Joins.GuardBits.triOutlineGuard tri style),
    guardBit (wide && !inside) (Joins.GuardBits.triStrokeColumnsGuard tri style)]

def handleThick (stream : String) (t : Toks) : Option String :=
  match stream with
  | "thick.points" =>
    let (s, t) := t.pt
    let (e, t) := t.pt
    let (w, _) := t.nat
    match Thick.thickPoints ⟨s, e⟩ w with
    | some ps => some (fmtPtsDigest ps)
    | none => some "stuck"
  | "thick.skips" =>
    let (s, t) := t.pt
    let (e, t) := t.pt
    let (w, _) := t.nat
    match Thick.skipReport ⟨s, e⟩ w with
    | some (a, b, n) => some s!"{a} {b} {n}"
    | none => some "stuck"
  | "thick.bbox" =>
    let (s, t) := t.pt
    let (e, t) := t.pt
    let (w, _) := t.nat
    match Thick.styledBoundingBox ⟨s, e⟩ w with
    | some r => some (fmtRect r)
    | none => some "stuck"
  | "thick.polyline" =>
    let (tr, t) := t.pt
    let (n, t) := t.nat
    let (vs, t) := takePts n t
    let (w, _) := t.nat
    let pl : Polyline := ⟨tr, vs⟩
    some (stuckOr (do
      let bb ← Joins.styledBoundingBox pl w
      let dr ← Joins.drawStyled pl w
      let px ← Joins.pixels pl w
      let (ks, sk) ← polyKinds vs w
      pure s!"bb={fmtRect bb} k={ks} s={sk} draw={fmtPolyDraw dr} px={fmtPtsDigest px} g={polyGuardBits pl w dr}"))
  | "thick.triangle" =>
    let (d, t) := t.pt
    let (a, t) := t.pt
    let (b, t) := t.pt
    let (c, t) := t.pt
    let (w, t) := t.nat
    let (al, t) := t.nat
    let (fill, t) := optColor t
    let (stroke, _) := optColor t
    let align : Joins.StrokeAlignment := match al with
      | 0 => .inside
      | 1 => .center
      | _ => .outside
    let tri : Joins.Tri := (⟨a, b, c⟩ : Joins.Tri).translate d
    let style : Joins.TriStyle := ⟨fill, stroke, w, align⟩
    some (stuckOr (do
      let bb ← Joins.triStyledBoundingBox tri style
      let dr ← Joins.triDraw tri style
      let px ← Joins.triPixels tri style
      let d := if dr.isEmpty then "-" else "fs:" ++ fmtPtsDigest (colRectsAsPts dr)
      let (ks, col) ← triKinds tri w align.toOffset
      pure s!"bb={fmtRect bb} k={ks} c={if col then 1 else 0} draw={d} px={fmtPtsDigest (colPixAsPts px)} g={triGuardBits tri style dr col}"))
  | _ => none

end EG.Driver
