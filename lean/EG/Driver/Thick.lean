/-
  EG.Driver.Thick — model side of the `thick.*` correspondence streams (harness/src/m_thick.rs).
-/
import EG.Driver.Line
import EG.Model.ThickLine
import EG.Model.ThickPolyline
namespace EG.Driver
open EG

/-- `n` points from the token list. -/
private def takePts : Nat → Toks → List Pt × Toks
  | 0, t => ([], t)
  | n + 1, t =>
    let (p, t) := t.pt
    let (ps, t) := takePts n t
    (p :: ps, t)

/-- A rectangle list as a point list `tl, (w, h), tl, (w, h), ..` (digested like a point list). -/
private def rectsAsPts (rs : List Rect) : List Pt :=
  rs.flatMap (fun r => [r.tl, (⟨(r.size.w : Int), (r.size.h : Int)⟩ : Pt)])

private def fmtPolyDraw : Joins.PolyDraw → String
  | .nothing => "-"
  | .drawIter pts => "di:" ++ fmtPtsDigest pts
  | .fillSolids [] => "-"        -- no call at all: the log is empty
  | .fillSolids rs => "fs:" ++ fmtPtsDigest (rectsAsPts rs)

private def stuckOr (o : Option String) : String :=
  match o with
  | some s => s
  | none => "stuck"

def handleThick (stream : String) (t : Toks) : Option String :=
  match stream with
  | "thick.points" =>
    let (s, t) := t.pt
    let (e, t) := t.pt
    let (w, _) := t.nat
    match Thick.thickPoints ⟨s, e⟩ w with
    | some ps => some (fmtPtsDigest ps)
    | none => some "stuck"
  | "thick.bbox" =>
    let (s, t) := t.pt
    let (e, t) := t.pt
    let (w, _) := t.nat
    match Thick.styledBoundingBox ⟨s, e⟩ w with
    | some r => some (fmtRect r)
    | none => some "stuck"
  | "thick.polyline" =>
    let (tr, t) := t.pt
    let (n, t) := t.nat
    let (vs, t) := takePts n t
    let (w, _) := t.nat
    let pl : Polyline := ⟨tr, vs⟩
    some (stuckOr (do
      let bb ← Joins.styledBoundingBox pl w
      let dr ← Joins.drawStyled pl w
      let px ← Joins.pixels pl w
      pure s!"bb={fmtRect bb} draw={fmtPolyDraw dr} px={fmtPtsDigest px}"))
  | _ => none

end EG.Driver
