/-
  EG.Driver.Thick — model side of the `thick.*` correspondence streams (harness/src/m_thick.rs).
-/
import EG.Driver.Line
import EG.Model.ThickLine
namespace EG.Driver
open EG

def handleThick (stream : String) (t : Toks) : Option String :=
  match stream with
  | "thick.points" =>
    let (s, t) := t.pt
    let (e, t) := t.pt
    let (w, _) := t.nat
    match Thick.thickPoints ⟨s, e⟩ w with
    | some ps => some (fmtPtsDigest ps)
    | none => some "stuck"
  | "thick.bbox" =>
    let (s, t) := t.pt
    let (e, t) := t.pt
    let (w, _) := t.nat
    match Thick.styledBoundingBox ⟨s, e⟩ w with
    | some r => some (fmtRect r)
    | none => some "stuck"
  | _ => none

end EG.Driver
