/-
  EG.Driver.Rect — model side of the `rect.*` correspondence streams (harness/src/m_rect.rs).
-/
import EG.Driver.Util
import EG.Driver.Line
namespace EG.Driver
open EG

def axOf : Nat → AnchorX | 0 => .left | 1 => .center | _ => .right
def ayOf : Nat → AnchorY | 0 => .top | 1 => .center | _ => .bottom

def anchors9 : List Anchor :=
  [⟨.left, .top⟩, ⟨.center, .top⟩, ⟨.right, .top⟩,
   ⟨.left, .center⟩, ⟨.center, .center⟩, ⟨.right, .center⟩,
   ⟨.left, .bottom⟩, ⟨.center, .bottom⟩, ⟨.right, .bottom⟩]

def handleRect (stream : String) (t : Toks) : Option String :=
  match stream with
  | "rect.pair" =>
    let (a, t) := t.rect
    let (b, _) := t.rect
    some s!"i={fmtRect (a.intersection b)} j={fmtRect (b.intersection a)} e={fmtRect (a.envelope b)}"
  | "rect.one" =>
    let (r, _) := t.rect
    let head := s!"br={fmtOptPt r.bottomRight} c={fmtPt r.center} rows={r.tl.y},{r.rowsEnd} cols={r.tl.x},{r.columnsEnd} zs={if r.isZeroSized then 1 else 0} an={fmtPts (anchors9.map r.anchorPoint)}"
    if r.size.w ≤ 12 ∧ r.size.h ≤ 12 then
      let ys := irange (r.tl.y - 2) (r.tl.y + r.size.h + 2)
      let xs := irange (r.tl.x - 2) (r.tl.x + r.size.w + 2)
      let bits := ys.flatMap (fun y => xs.map (fun x => r.contains ⟨x, y⟩))
      some s!"{head} pts={fmtPts r.points} in={fmtBits bits}"
    else
      let x0 := r.tl.x
      let y0 := r.tl.y
      let x1 := x0 + r.size.w
      let y1 := y0 + r.size.h
      let bits := [y0 - 1, y0, y1 - 1, y1].flatMap (fun y => [x0 - 1, x0, x1 - 1, x1].map (fun x => r.contains ⟨x, y⟩))
      some s!"{head} in16={fmtBits bits}"
  | "rect.pts" =>
    let (r, _) := t.rect
    some (fmtPtsDigest r.points)
  | "rect.resize" =>
    let (r, t) := t.rect
    let (ns, t) := t.sz
    let (axi, t) := t.nat
    let (ayi, _) := t.nat
    some s!"r={fmtRect (r.resized ns ⟨axOf axi, ayOf ayi⟩)} rw={fmtRect (r.resizedWidth ns.w (axOf axi))} rh={fmtRect (r.resizedHeight ns.h (ayOf ayi))}"
  | "rect.offset" =>
    let (r, t) := t.rect
    let (o, _) := t.int
    some (fmtRect (r.offset o))
  | "rect.corners" =>
    let (p1, t) := t.pt
    let (p2, _) := t.pt
    some (fmtRect (Rect.withCorners p1 p2))
  | "rect.withcenter" =>
    let (c, t) := t.pt
    let (s, _) := t.sz
    some (fmtRect (Rect.withCenter c s))
  | _ => none

end EG.Driver
