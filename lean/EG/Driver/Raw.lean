/-
  EG.Driver.Raw — model side of the `raw.*` correspondence streams (harness/src/m_raw.rs).
-/
import EG.Driver.Util
namespace EG.Driver
open EG

def handleRaw (_stream : String) (_t : Toks) : Option String := none

end EG.Driver
