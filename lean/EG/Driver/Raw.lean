/-
  EG.Driver.Raw — model side of the `raw.*` correspondence streams (harness/src/m_raw.rs).

  raw.store <bits> <order 0|1> <bytes> <index> <value>
      -> `<ok|err> <bytes after> <load of every index 0 ..= pixelCount+1 after the store>`
  raw.load  <bits> <order> <bytes> <index>            -> `<value|none>`
  raw.iter  <bits> <order> <bytes> <script>           script item: -1 = next(), k >= 0 = nth(k)
      -> `<lo>,<hi>,<item|none>;...` (size_hint before each step, then its result)
         ` end=<lo>,<hi> rest=<items a for loop still sees>`
-/
import EG.Driver.Util
import EG.Model.Raw
namespace EG.Driver
open EG EG.Raw

def orderOf : Nat → Order
  | 0 => .le
  | _ => .be

def fmtOptNat : Option Nat → String
  | some v => toString v
  | none => "none"

def fmtHint (h : Nat × Option Nat) : String := s!"{h.1},{fmtOptNat h.2}"

def fmtLoads (bits : Nat) (o : Order) (buf : List Nat) : String :=
  joinOr "," ((List.range (pixelCount bits buf.length + 2)).map (fun i => fmtOptNat (load bits o buf i)))

def runScript : List Int → Iter → List String → List String × Iter
  | [], it, acc => (acc.reverse, it)
  | k :: ks, it, acc =>
    let h := it.sizeHint
    let (r, it') := if k < 0 then it.next else it.nth k.toNat
    runScript ks it' (s!"{fmtHint h},{fmtOptNat r}" :: acc)

def handleRaw (stream : String) (t : Toks) : Option String :=
  match stream with
  | "raw.store" =>
    let (bits, t) := t.nat
    let (o, t) := t.nat
    let (buf, t) := t.natList
    let (i, t) := t.nat
    let (v, _) := t.nat
    let (ok, buf') := store bits (orderOf o) (rawNew bits v) buf i
    some s!"{if ok then "ok" else "err"} {fmtNats buf'} {fmtLoads bits (orderOf o) buf'}"
  | "raw.load" =>
    let (bits, t) := t.nat
    let (o, t) := t.nat
    let (buf, t) := t.natList
    let (i, _) := t.nat
    some (fmtOptNat (load bits (orderOf o) buf i))
  | "raw.iter" =>
    let (bits, t) := t.nat
    let (o, t) := t.nat
    let (buf, t) := t.natList
    let (script, _) := t.intList
    let (steps, it) := runScript script (Iter.new bits (orderOf o) buf) []
    some s!"{joinOr ";" steps} end={fmtHint it.sizeHint} rest={fmtNats it.toList}"
  | _ => none

end EG.Driver
