/-
  EG.Driver.Faults — model side of the `faults.*` correspondence streams (harness/src/m_faults.rs).

  For the styled shapes (`faults.shape`: every kind of shapes.rs through Driver/ShapeView.lean — rectangle, circle,
  ellipse, rounded rectangle, line, polyline, triangle with every stroke width; arc and sector when the op line
  carries the hook tokens), texts (`faults.text`: `TextLayout.draw`) and images (`faults.image`: `Img.Image.draw`) the
  number `n` of target calls of the fault-free run is the length of the model's call list (every
  adapter forwards each call as exactly one call, so `n` does not depend on the adapter stack) — the
  list of calls `EG.C04.prefix_law_sites` speaks about, for whichever call sites they are made at —
  and `tested` is the number of fault positions the harness enumerates for that `n` (all of them).
  `faults.dotted` (rectangle with a dotted stroke) has no model: `none` (printed `skip`).

  `faults.whitespace`: `n` = length of the call list of `MonoFont.drawWhitespace` (EG/Model/Font.lean)
  for the font constants of the generated font table (fonts 0..2 = `ascii::FONT_4X6 / FONT_6X10 /
  FONT_9X15`, 3 = `FONT_6X10` with character spacing 2) and the style the harness builds from the mask.
  `faults.pixel`, `faults.pixiter`, `faults.clear`: one call on the drawn-on target (`Pixel::draw` and
  `PixelIteratorExt::draw` are one `draw_iter`; `clear` is one `Call.clear`), lowered by the adapter
  stack to exactly one call on the root (`lowerStack` maps a call to a call).

  `faults.prefix <op of another faults stream>`: additionally the outcome of the error-aware target
  model (`faultRun`, EG/Model/FaultTarget.lean: recording root with `fail_at`, the adapters with
  their `Result` plumbing) for the fault-free run and the fault positions 0, n/2, n-1: what `draw`
  returns, the root's `calls` / `calls_after_error`, the length of its log and the digest of the
  log's text (`fmt_log` of common.rs) — on the root kind (`native`) and through the adapter stack
  named in the op, with the colour conversion where the harness stacks one. Kinds without a model
  here (text, dotted strokes, the other primitives) return `none`.
-/
import EG.Driver.ShapeView
import EG.Model.Font
import EG.Model.TextLayout
import EG.Model.ImageRaw
import EG.Model.Adapters
import EG.Model.FaultTarget
import EG.Model.ImageRaw
import EG.Model.Conv
namespace EG.Driver
open EG

/-- number of fault positions enumerated for a run of `n` calls: every `k < n` (no sampling). -/
private def testedCount (n : Nat) : Nat := n

/-- the font of `faults.whitespace` / `faults.text` number `i`, from the generated table -/
private def faultFont (i : Nat) : Option Font.MonoFont :=
  let name := match i with | 0 => "FONT_4X6" | 2 => "FONT_9X15" | _ => "FONT_6X10"
  match Generated.fontTable.find? (fun r => r.module == "ascii" && r.name == name) with
  | some r => some (if i == 3 then { Font.fontOfRec r with spacing := 2 } else Font.fontOfRec r)
  | none => none

/-- Rgb565::new(r, g, b) as a raw value -/
private def rgb565 (r g b : Nat) : Color := r * 2048 + g * 32 + b

/-- the style `MonoTextStyleBuilder` yields for a colour mask (bit 0 text colour, 1 background,
2 `underline()` = `DecorationColor::TextColor`, 3 `strikethrough_with_color`) -/
private def faultStyle (mask : Nat) : Font.Style :=
  ⟨if mask % 2 == 1 then some (rgb565 1 2 3) else none,
   if mask / 2 % 2 == 1 then some (rgb565 3 2 1) else none,
   if mask / 4 % 2 == 1 then .textColor else .none,
   if mask / 8 % 2 == 1 then .custom (rgb565 9 9 9) else .none⟩

private def faultBaseline : Nat → Font.Baseline
  | 0 => .top | 1 => .bottom | 2 => .middle | _ => .alphabetic

/-- the adapter stacks of `fault_runs!` (m_faults.rs), root-most adapter first -/
private def faultStack (adapter : Nat) : Stack :=
  let clip : Rect := ⟨⟨-3, -2⟩, ⟨30, 25⟩⟩
  match adapter with
  | 0 => []
  | 1 => [.clipped clip]
  | 2 => [.translated ⟨4, -3⟩]
  | 3 => [.cropped clip]
  | 4 => [.translated ⟨4, -3⟩, .clipped clip]
  | _ => [.clipped clip, .cropped ⟨⟨1, 1⟩, ⟨20, 20⟩⟩, .translated ⟨-2, 5⟩]

/-- calls the root target receives for the calls issued on top of adapter stack `adapter` -/
private def onRoot (adapter : Nat) (calls : List Call) : List Call :=
  calls.map (lowerStack ⟨⟨-40, -40⟩, ⟨120, 120⟩⟩ (faultStack adapter))

/-- `x,y;x,y;...` or `-` -/
private def fParsePts (s : String) : List Pt :=
  if s == "-" then [] else
  (s.splitOn ";").map (fun p =>
    match p.splitOn "," with
    | [x, y] => ⟨parseInt x, parseInt y⟩
    | _ => ⟨0, 0⟩)

private def answer (cs : List Call) : Option String := some s!"n={cs.length} tested={testedCount cs.length}"

/-! ### `faults.prefix`: the error-aware model on sampled fault positions -/

/-- `Call::fmt` / `Rec::fmt_log` of common.rs -/
private def pfxFmtCall : Call → String
  | .drawIter px => "di:" ++ fmtPix px
  | .fillContiguous a cs => s!"fc:{fmtRect a}:{fmtNats cs}"
  | .fillSolid a c => s!"fs:{fmtRect a}:{c}"
  | .clear c => s!"cl:{c}"

private def pfxFmtLog (cs : List Call) : String := joinOr "|" (cs.map pfxFmtCall)

/-- `pfx_entry` of m_faults.rs -/
private def pfxEntry (o : FRes × RootState) : String :=
  let res := match o.1 with | .ok _ => "ok" | .error j => s!"err{j}"
  s!"{res}/{o.2.calls}/{o.2.callsAfterError}/{o.2.log.length}/{strDigest (pfxFmtLog o.2.log)}"

/-- `impl From<BinaryColor> for Rgb565` (Off = black, On = white), as raw values -/
private def binToRgb565 (c : Color) : Color := if c % 2 == 1 then 65535 else 0

/-- `Rgb565::from(Gray8)` on raw values, from the generated conversion table (C13's model) -/
private def gray8ToRgb565 (c : Color) : Color :=
  match Generated.convTable.find? (fun e => e.src == "Gray8" && e.dst == "Rgb565") with
  | some e => (Conv.convert e c).getD 0
  | none => 0

/-- the image of a `faults.image` op: data byte `i` = `(i * 37 + 11) as u8`, `ImageRaw::<C>::new` (default data
order `LittleEndianMsb0`), `s1 = raw.sub_image((1,0) 3x2)`, `s2 = s1.sub_image((1,1) 4x4)`; sub 0 / 1:
`Image::new(.., (2,3))` of the raw image / of `s1`; sub 2: `Image::with_center(&s2, (2,3))`. -/
private def faultImage (bits w h sub : Nat) : Option Img.Image :=
  let bpr := (w * bits + 7) / 8
  let data := (List.range (bpr * h)).map (fun i => (i * 37 + 11) % 256)
  match Img.ImageRaw.new bits .le data ⟨w, h⟩ with
  | .ok raw =>
    let d0 := Img.Drawable.raw raw
    let s1 := d0.subImage ⟨⟨1, 0⟩, ⟨3, 2⟩⟩
    let s2 := s1.subImage ⟨⟨1, 1⟩, ⟨4, 4⟩⟩
    some (match sub with
      | 0 => Img.Image.new d0 ⟨2, 3⟩
      | 1 => Img.Image.new s1 ⟨2, 3⟩
      | _ => Img.Image.withCenter s2 ⟨2, 3⟩)
  | .error _ => none

/-- the call list, the adapter stack (root-most first) and the root kind of the wrapped op -/
private def prefixSubject (stream : String) (t : Toks) : Option (List Call × Stack × Bool) :=
  if stream == "faults.shape" then
    -- every shape kind of shapes.rs through Driver/ShapeView.lean (the same views `faults.shape` itself uses)
    match parseShapeView t with
    | none => none
    | some (view, t) =>
      let (adapter, t) := t.nat
      let (native, _) := t.nat
      match (view ⟨0, 0⟩).calls () with
      | some cs => some (cs, faultStack adapter, native == 1)
      | none => none
  else if stream == "faults.whitespace" then
    let (fi, t) := t.nat
    let (mask, t) := t.nat
    let (bl, t) := t.nat
    let (width, t) := t.nat
    let (adapter, t) := t.nat
    let (native, _) := t.nat
    match faultFont fi with
    | some f => some ((f.drawWhitespace (faultStyle mask) width ⟨3, 9⟩ (faultBaseline bl)).1, faultStack adapter, native == 1)
    | none => none
  else if stream == "faults.image" then
    let (bits, t) := t.nat
    let (w, t) := t.nat
    let (h, t) := t.nat
    let (sub, t) := t.nat
    let (adapter, t) := t.nat
    let (native, _) := t.nat
    -- 1 / 8 bpp (BinaryColor / Gray8): `color_converted()` on top of the stack; 16 bpp (Rgb565): the stack alone
    let conv : Stack := if bits == 1 then [.converted binToRgb565] else if bits == 8 then [.converted gray8ToRgb565] else []
    match faultImage bits w h sub with
    | some im => some (im.draw, faultStack (if adapter == 6 then 0 else adapter) ++ conv, native == 1)
    | none => none
  else if stream == "faults.pixel" then
    let (p, t) := t.pt
    let (c, t) := t.nat
    let (adapter, t) := t.nat
    let (native, _) := t.nat
    -- adapter 6: a `BinaryColor` pixel (`c & 1`) through `color_converted()` on the bare target
    if adapter == 6 then some ([Call.drawIter [(p, c % 2)]], [.converted binToRgb565], native == 1)
    else some ([Call.drawIter [(p, c)]], faultStack adapter, native == 1)
  else if stream == "faults.pixiter" then
    let (ptsTok, t) := t.str
    let pts := fParsePts ptsTok
    let (c, t) := t.nat
    let (adapter, t) := t.nat
    let (native, _) := t.nat
    if adapter == 6 then some ([Call.drawIter (pts.map (fun p => (p, c % 2)))], [.converted binToRgb565], native == 1)
    else some ([Call.drawIter (pts.map (fun p => (p, c)))], faultStack adapter, native == 1)
  else if stream == "faults.clear" then
    let (c, t) := t.nat
    let (adapter, t) := t.nat
    let (cc, t) := t.nat
    let (native, _) := t.nat
    -- cc = 1: `color_converted()` stacked on top of the adapter stack, colour `BinaryColor::from_num(c & 1)`
    if cc == 1 then some ([Call.clear (c % 2)], faultStack adapter ++ [.converted binToRgb565], native == 1)
    else some ([Call.clear c], faultStack adapter, native == 1)
  else none

private def handleFaultsPrefix (t : Toks) : Option String :=
  let (inner, t) := t.str
  match prefixSubject inner t with
  | none => none
  | some (cs, stack, native) =>
    let B : Rect := ⟨⟨-40, -40⟩, ⟨120, 120⟩⟩
    let ff := faultRun native B stack none cs
    -- the number of calls the root saw in the fault-free run, as the harness takes it
    let n := ff.2.calls
    let ks := (List.range n).filter (fun k => k == 0 || k == n / 2 || k + 1 == n)
    let parts := ks.map (fun k => s!" k{k}={pfxEntry (faultRun native B stack (some k) cs)}")
    some s!"n={n} tested={testedCount n} ff={pfxEntry ff}{String.join parts}"

def handleFaults (stream : String) (t : Toks) : Option String :=
  if stream == "faults.prefix" then handleFaultsPrefix t else
  if stream == "faults.whitespace" then
    let (fi, t) := t.nat
    let (mask, t) := t.nat
    let (bl, t) := t.nat
    let (width, t) := t.nat
    let (adapter, _) := t.nat
    match faultFont fi with
    | some f => answer (onRoot adapter (f.drawWhitespace (faultStyle mask) width ⟨3, 9⟩ (faultBaseline bl)).1)
    | none => none
  else if stream == "faults.pixel" then
    let (p, t) := t.pt
    let (c, t) := t.nat
    let (adapter, _) := t.nat
    -- adapter 6: `color_converted()` on the bare target
    answer (onRoot (if adapter == 6 then 0 else adapter) [Call.drawIter [(p, c)]])
  else if stream == "faults.pixiter" then
    let (ptsTok, t) := t.str
    let pts := fParsePts ptsTok
    let (c, t) := t.nat
    let (adapter, _) := t.nat
    answer (onRoot (if adapter == 6 then 0 else adapter) [Call.drawIter (pts.map (fun p => (p, c)))])
  else if stream == "faults.clear" then
    let (c, t) := t.nat
    let (adapter, _) := t.nat
    answer (onRoot adapter [Call.clear c])
  else if stream == "faults.text" then
    -- `Text::with_alignment(&s, Point::new(3, 9), style, align)`: default baseline (alphabetic) and line height.
    -- The glyph bits do not influence the NUMBER of calls (one call per glyph whatever its pixels), so the
    -- atlas handed to the model is all-off. Stack 6 = `color_converted()` on the bare target (one call per call).
    let (fi, t) := t.nat
    let (mask, t) := t.nat
    let (al, t) := t.nat
    let (cps, t) := t.natList
    let (adapter, _) := t.nat
    let align : TextLayout.Alignment := match al with | 0 => .left | 1 => .center | _ => .right
    match faultFont fi with
    | some f =>
      let tx : TextLayout.Text := ⟨cps, ⟨3, 9⟩, faultStyle mask, ⟨align, .alphabetic, .percent 100⟩⟩
      answer (onRoot (if adapter == 6 then 0 else adapter) (TextLayout.draw f (fun _ => false) tx).1)
    | none => none
  else if stream == "faults.image" then
    -- the byte order does not influence the number of calls; `color_converted()` on top of the stack (1 / 8 bpp)
    -- forwards every call as one call
    let (bits, t) := t.nat
    let (sz, t) := t.sz
    let (sub, t) := t.nat
    let (adapter, _) := t.nat
    let bpr := (sz.w * bits + 7) / 8
    let data := (List.range (bpr * sz.h)).map (fun i => (i * 37 + 11) % 256)
    match Img.ImageRaw.new bits .be data sz with
    | .error _ => none
    | .ok im =>
      let raw : Img.Drawable := .raw im
      let s1 := raw.subImage ⟨⟨1, 0⟩, ⟨3, 2⟩⟩
      let s2 := s1.subImage ⟨⟨1, 1⟩, ⟨4, 4⟩⟩
      let img : Img.Image :=
        match sub with
        | 0 => Img.Image.new raw ⟨2, 3⟩
        | 1 => Img.Image.new s1 ⟨2, 3⟩
        | _ => Img.Image.withCenter s2 ⟨2, 3⟩
      answer (onRoot (if adapter == 6 then 0 else adapter) img.draw)
  else
  if stream != "faults.shape" then none else
  -- every shape kind of shapes.rs (Driver/ShapeView.lean; arcs and sectors when the op carries the hook tokens)
  match parseShapeView t with
  | none => none
  | some (view, _) =>
    match (view ⟨0, 0⟩).calls () with
    | some cs => answer cs
    | none => some "stuck"

end EG.Driver
