/-
  EG.Driver.Faults — model side of the `faults.*` correspondence streams (harness/src/m_faults.rs).

  For the styled shapes that have a model (rectangle, circle, ellipse, rounded rectangle) the
  number `n` of target calls of the fault-free run is the length of the model's call list (every
  adapter forwards each call as exactly one call, so `n` does not depend on the adapter stack) — the
  list of calls `EG.C04.prefix_law_sites` speaks about, for whichever call sites they are made at —
  and `tested` is the number of fault positions the harness enumerates for that `n` (all of them). Other drawables return `none` (printed `skip`).

  `faults.whitespace`: `n` = length of the call list of `MonoFont.drawWhitespace` (EG/Model/Font.lean)
  for the font constants of the generated font table (fonts 0..2 = `ascii::FONT_4X6 / FONT_6X10 /
  FONT_9X15`, 3 = `FONT_6X10` with character spacing 2) and the style the harness builds from the mask.
  `faults.pixel`, `faults.pixiter`, `faults.clear`: one call on the drawn-on target (`Pixel::draw` and
  `PixelIteratorExt::draw` are one `draw_iter`; `clear` is one `Call.clear`), lowered by the adapter
  stack to exactly one call on the root (`lowerStack` maps a call to a call).
-/
import EG.Driver.Util
import EG.Model.StyledRect
import EG.Model.Circle
import EG.Model.Ellipse
import EG.Model.RoundedRect
import EG.Model.Font
import EG.Model.Adapters
namespace EG.Driver
open EG

private def fParseOptColor (s : String) : Option Color := if s == "-" then none else some (parseNat s)
private def fAlignOf : Nat → StrokeAlignment | 0 => .inside | 1 => .center | _ => .outside

private def Toks.fstyle (t : Toks) : Style × Toks :=
  let (f, t) := t.str
  let (s, t) := t.str
  let (w, t) := t.nat
  let (a, t) := t.nat
  (⟨fParseOptColor f, fParseOptColor s, w, fAlignOf a⟩, t)

/-- number of fault positions enumerated for a run of `n` calls: every `k < n` (no sampling). -/
private def testedCount (n : Nat) : Nat := n

/-- the font of `faults.whitespace` / `faults.text` number `i`, from the generated table -/
private def faultFont (i : Nat) : Option Font.MonoFont :=
  let name := match i with | 0 => "FONT_4X6" | 2 => "FONT_9X15" | _ => "FONT_6X10"
  match Generated.fontTable.find? (fun r => r.module == "ascii" && r.name == name) with
  | some r => some (if i == 3 then { Font.fontOfRec r with spacing := 2 } else Font.fontOfRec r)
  | none => none

/-- Rgb565::new(r, g, b) as a raw value -/
private def rgb565 (r g b : Nat) : Color := r * 2048 + g * 32 + b

/-- the style `MonoTextStyleBuilder` yields for a colour mask (bit 0 text colour, 1 background,
2 `underline()` = `DecorationColor::TextColor`, 3 `strikethrough_with_color`) -/
private def faultStyle (mask : Nat) : Font.Style :=
  ⟨if mask % 2 == 1 then some (rgb565 1 2 3) else none,
   if mask / 2 % 2 == 1 then some (rgb565 3 2 1) else none,
   if mask / 4 % 2 == 1 then .textColor else .none,
   if mask / 8 % 2 == 1 then .custom (rgb565 9 9 9) else .none⟩

private def faultBaseline : Nat → Font.Baseline
  | 0 => .top | 1 => .bottom | 2 => .middle | _ => .alphabetic

/-- the adapter stacks of `fault_runs!` (m_faults.rs), root-most adapter first -/
private def faultStack (adapter : Nat) : Stack :=
  let clip : Rect := ⟨⟨-3, -2⟩, ⟨30, 25⟩⟩
  match adapter with
  | 0 => []
  | 1 => [.clipped clip]
  | 2 => [.translated ⟨4, -3⟩]
  | 3 => [.cropped clip]
  | 4 => [.translated ⟨4, -3⟩, .clipped clip]
  | _ => [.clipped clip, .cropped ⟨⟨1, 1⟩, ⟨20, 20⟩⟩, .translated ⟨-2, 5⟩]

/-- calls the root target receives for the calls issued on top of adapter stack `adapter` -/
private def onRoot (adapter : Nat) (calls : List Call) : List Call :=
  calls.map (lowerStack ⟨⟨-40, -40⟩, ⟨120, 120⟩⟩ (faultStack adapter))

/-- `x,y;x,y;...` or `-` -/
private def fParsePts (s : String) : List Pt :=
  if s == "-" then [] else
  (s.splitOn ";").map (fun p =>
    match p.splitOn "," with
    | [x, y] => ⟨parseInt x, parseInt y⟩
    | _ => ⟨0, 0⟩)

private def answer (cs : List Call) : Option String := some s!"n={cs.length} tested={testedCount cs.length}"

def handleFaults (stream : String) (t : Toks) : Option String :=
  if stream == "faults.whitespace" then
    let (fi, t) := t.nat
    let (mask, t) := t.nat
    let (bl, t) := t.nat
    let (width, t) := t.nat
    let (adapter, _) := t.nat
    match faultFont fi with
    | some f => answer (onRoot adapter (f.drawWhitespace (faultStyle mask) width ⟨3, 9⟩ (faultBaseline bl)).1)
    | none => none
  else if stream == "faults.pixel" then
    let (p, t) := t.pt
    let (c, t) := t.nat
    let (adapter, _) := t.nat
    -- adapter 6: `color_converted()` on the bare target
    answer (onRoot (if adapter == 6 then 0 else adapter) [Call.drawIter [(p, c)]])
  else if stream == "faults.pixiter" then
    let (ptsTok, t) := t.str
    let pts := fParsePts ptsTok
    let (c, t) := t.nat
    let (adapter, _) := t.nat
    answer (onRoot (if adapter == 6 then 0 else adapter) [Call.drawIter (pts.map (fun p => (p, c)))])
  else if stream == "faults.clear" then
    let (c, t) := t.nat
    let (adapter, _) := t.nat
    answer (onRoot adapter [Call.clear c])
  else
  if stream != "faults.shape" then none else
  let (kind, t) := t.str
  let calls? : Option (List Call) :=
    match kind with
    | "rect" =>
      let (r, t) := t.rect
      let (s, _) := t.fstyle
      some (StyledRect.drawCalls s r)
    | "circle" =>
      let (p, t) := t.pt
      let (d, t) := t.nat
      let (s, _) := t.fstyle
      some ((⟨p, d⟩ : Circle).drawStyled ⟨s.fill, s.stroke, s.width, s.align⟩)
    | "ellipse" =>
      let (p, t) := t.pt
      let (sz, t) := t.sz
      let (s, _) := t.fstyle
      some ((⟨p, sz⟩ : Ellipse).drawStyled ⟨s.fill, s.stroke, s.width, s.align⟩)
    | "rrect" =>
      let (r, t) := t.rect
      let (tl, t) := t.sz
      let (tr, t) := t.sz
      let (br, t) := t.sz
      let (bl, t) := t.sz
      let (s, _) := t.fstyle
      some ((⟨r, ⟨tl, tr, br, bl⟩⟩ : RoundedRect).drawStyled s)
    | _ => none
  match calls? with
  | some cs => some s!"n={cs.length} tested={testedCount cs.length}"
  | none => none

end EG.Driver
