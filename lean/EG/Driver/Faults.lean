/-
  EG.Driver.Faults — model side of the `faults.*` correspondence streams (harness/src/m_faults.rs).

  For the styled shapes that have a model (rectangle, circle, ellipse, rounded rectangle) the
  number `n` of target calls of the fault-free run is the length of the model's call list (every
  adapter forwards each call as exactly one call, so `n` does not depend on the adapter stack) — the
  list of calls `EG.C04.prefix_law_sites` speaks about, for whichever call sites they are made at —
  and `tested` is the number of fault positions the harness enumerates for that `n` (all of them). Other drawables return `none` (printed `skip`).
-/
import EG.Driver.Util
import EG.Model.StyledRect
import EG.Model.Circle
import EG.Model.Ellipse
import EG.Model.RoundedRect
namespace EG.Driver
open EG

private def fParseOptColor (s : String) : Option Color := if s == "-" then none else some (parseNat s)
private def fAlignOf : Nat → StrokeAlignment | 0 => .inside | 1 => .center | _ => .outside

private def Toks.fstyle (t : Toks) : Style × Toks :=
  let (f, t) := t.str
  let (s, t) := t.str
  let (w, t) := t.nat
  let (a, t) := t.nat
  (⟨fParseOptColor f, fParseOptColor s, w, fAlignOf a⟩, t)

/-- number of fault positions enumerated for a run of `n` calls: every `k < n` (no sampling). -/
private def testedCount (n : Nat) : Nat := n

def handleFaults (stream : String) (t : Toks) : Option String :=
  if stream != "faults.shape" then none else
  let (kind, t) := t.str
  let calls? : Option (List Call) :=
    match kind with
    | "rect" =>
      let (r, t) := t.rect
      let (s, _) := t.fstyle
      some (StyledRect.drawCalls s r)
    | "circle" =>
      let (p, t) := t.pt
      let (d, t) := t.nat
      let (s, _) := t.fstyle
      some ((⟨p, d⟩ : Circle).drawStyled ⟨s.fill, s.stroke, s.width, s.align⟩)
    | "ellipse" =>
      let (p, t) := t.pt
      let (sz, t) := t.sz
      let (s, _) := t.fstyle
      some ((⟨p, sz⟩ : Ellipse).drawStyled ⟨s.fill, s.stroke, s.width, s.align⟩)
    | "rrect" =>
      let (r, t) := t.rect
      let (tl, t) := t.sz
      let (tr, t) := t.sz
      let (br, t) := t.sz
      let (bl, t) := t.sz
      let (s, _) := t.fstyle
      some ((⟨r, ⟨tl, tr, br, bl⟩⟩ : RoundedRect).drawStyled s)
    | _ => none
  match calls? with
  | some cs => some s!"n={cs.length} tested={testedCount cs.length}"
  | none => none

end EG.Driver
