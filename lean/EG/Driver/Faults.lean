/-
  EG.Driver.Faults — model side of the `faults.*` correspondence streams (harness/src/m_faults.rs).
-/
import EG.Driver.Util
namespace EG.Driver
open EG

def handleFaults (_stream : String) (_t : Toks) : Option String := none

end EG.Driver
