/-
  EG.Driver.Rrect — model side of the `rrect.*` correspondence streams (harness/src/m_rrect.rs).
-/
import EG.Driver.Util
import EG.Model.RoundedRect
namespace EG.Driver
open EG

private def rrAlignOf : Nat → StrokeAlignment | 0 => .inside | 1 => .center | _ => .outside

private def rrParseCol (s : String) : Option Color := if s == "-" then none else some (parseNat s)

private def rrRadii (t : Toks) : CornerRadii × Toks :=
  let (tl, t) := t.sz
  let (tr, t) := t.sz
  let (br, t) := t.sz
  let (bl, t) := t.sz
  (⟨tl, tr, br, bl⟩, t)

private def rrGeometry (t : Toks) : RoundedRect × Toks :=
  let (r, t) := t.rect
  let (c, t) := rrRadii t
  (⟨r, c⟩, t)

private def rrFmtRadii (c : CornerRadii) : String :=
  s!"{c.tl.w},{c.tl.h},{c.tr.w},{c.tr.h},{c.br.w},{c.br.h},{c.bl.w},{c.bl.h}"

private def rrFmt (r : RoundedRect) : String := s!"{fmtRect r.rect},{rrFmtRadii r.corners}"

private def rrFmtCall : Call → String
  | .drawIter px => "di:" ++ fmtPix px
  | .fillContiguous a cs => s!"fc:{fmtRect a}:{fmtNats cs}"
  | .fillSolid a c => s!"fs:{fmtRect a}:{c}"
  | .clear c => s!"cl:{c}"

private def rrFmtLog (cs : List Call) : String := joinOr "|" (cs.map rrFmtCall)

def handleRrect (stream : String) (t : Toks) : Option String :=
  match stream with
  | "rrect.points" =>
    let (r, _) := rrGeometry t
    let tl := r.rect.tl
    let ys := irange (tl.y - 3) (tl.y + r.rect.size.h + 3)
    let xs := irange (tl.x - 3) (tl.x + r.rect.size.w + 3)
    let c := RRContains.new r
    let bits := ys.flatMap (fun y => xs.map (fun x => c.contains ⟨x, y⟩))
    some s!"bb={fmtRect r.boundingBox} cf={rrFmtRadii r.confineRadii.corners} pts={fmtPts r.points} in={fmtBits bits}"
  | "rrect.confine" =>
    let (sz, t) := t.sz
    let (c, _) := rrRadii t
    some s!"c={rrFmtRadii (c.confine sz)}"
  | "rrect.areas" =>
    let (r, t) := rrGeometry t
    let (w, t) := t.nat
    let (a, _) := t.nat
    let st : Style := ⟨none, some 9, w, rrAlignOf a⟩
    some s!"s={rrFmt (r.strokeArea st)} f={rrFmt (r.fillArea st)} sbb={fmtRect (r.styledBoundingBox st)}"
  | "rrect.styled" =>
    let (r, t) := rrGeometry t
    let (f, t) := t.str
    let (s, t) := t.str
    let (w, t) := t.nat
    let (a, t) := t.nat
    let (B, _) := t.rect
    let st : Style := ⟨rrParseCol f, rrParseCol s, w, rrAlignOf a⟩
    let calls := r.drawStyled st
    let m1 := canonPix (calls.flatMap (Call.writesDefault B))
    let m2 := canonPix (calls.flatMap (Call.writesNative B))
    some s!"log={rrFmtLog calls} m1={fmtPix m1} m2={fmtPix m2} px={fmtPix (r.styledPixels st)}"
  | _ => none

end EG.Driver
