/-
  EG.Driver.Rrect — model side of the `rrect.*` correspondence streams (harness/src/m_rrect.rs).
-/
import EG.Driver.Util
namespace EG.Driver
open EG

def handleRrect (_stream : String) (_t : Toks) : Option String := none

end EG.Driver
