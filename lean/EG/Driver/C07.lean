/-
  EG.Driver.C07 — model side of the C07 correspondence streams (harness/src/c07.rs).
-/
import EG.Driver.Util
namespace EG.Driver
open EG

def c07 (_stream : String) (_t : Toks) : Option String := none

end EG.Driver
