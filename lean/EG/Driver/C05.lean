/-
  EG.Driver.C05 — model side of the C05 correspondence streams (harness/src/c05.rs).
-/
import EG.Driver.Util
namespace EG.Driver
open EG

def c05 (_stream : String) (_t : Toks) : Option String := none

end EG.Driver
