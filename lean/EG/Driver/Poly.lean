/-
  EG.Driver.Poly — model side of the `poly.*` correspondence streams (harness/src/m_poly.rs).
-/
import EG.Driver.Line
import EG.Model.Polyline
namespace EG.Driver
open EG

def Toks.pts : Nat → Toks → List Pt × Toks
  | 0, t => ([], t)
  | n + 1, t =>
    let (p, t) := t.pt
    let (ps, t) := Toks.pts n t
    (p :: ps, t)

def handlePoly (stream : String) (t : Toks) : Option String :=
  match stream with
  | "poly.points" =>
    let (n, t) := t.nat
    let (vs, _) := Toks.pts n t
    some (fmtPtsDigest (Polyline.new vs).points)
  | "poly.translated" =>
    let (d, t) := t.pt
    let (n, t) := t.nat
    let (vs, _) := Toks.pts n t
    some (fmtPtsDigest ((Polyline.new vs).translateBy d).points)
  | _ => none

end EG.Driver
