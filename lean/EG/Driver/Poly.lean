/-
  EG.Driver.Poly — model side of the `poly.*` correspondence streams (harness/src/m_poly.rs).
-/
import EG.Driver.Util
namespace EG.Driver
open EG

def handlePoly (_stream : String) (_t : Toks) : Option String := none

end EG.Driver
