/-
  EG.Driver.C17 — model side of the C17 correspondence streams (harness/src/c17.rs).
-/
import EG.Driver.Util
namespace EG.Driver
open EG

def c17 (_stream : String) (_t : Toks) : Option String := none

end EG.Driver
