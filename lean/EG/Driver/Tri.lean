/-
  EG.Driver.Tri — model side of the `tri.*` correspondence streams (harness/src/m_tri.rs).
-/
import EG.Driver.Util
namespace EG.Driver
open EG

def handleTri (_stream : String) (_t : Toks) : Option String := none

end EG.Driver
