/-
  EG.Driver.Tri — model side of the `tri.*` correspondence streams (harness/src/m_tri.rs).
-/
import EG.Driver.Line
import EG.Model.Triangle
import EG.Model.TriangleAligned
namespace EG.Driver
open EG

private def triOf (t : Toks) : Triangle × Toks :=
  let (a, t) := t.pt
  let (b, t) := t.pt
  let (c, t) := t.pt
  (⟨a, b, c⟩, t)

/-- Same digest as `bits_digest` in harness/src/m_tri.rs. -/
private def triBitsDigest (bs : List Bool) : String :=
  if bs.length ≤ 256 then fmtBits bs
  else
    let h := bs.foldl (fun h b => (h * 1000003 + (if b then 2 else 1)) % 18446744073709551616) 0
    let ones := (bs.filter id).length
    s!"n={bs.length},ones={ones},h={h}"

/-- The bounding box grown by 2 px on every side. -/
private def triGrown (bb : Rect) : Rect := ⟨⟨bb.tl.x - 2, bb.tl.y - 2⟩, ⟨bb.size.w + 4, bb.size.h + 4⟩⟩

/-- number of distinct points of a list (row-major sort, then count the runs) -/
private def triDistinct (ps : List Pt) : Nat :=
  let sorted := ps.mergeSort ptLe
  (sorted.foldl (fun (acc : Nat × Option Pt) p =>
    if acc.2 == some p then acc else (acc.1 + 1, some p)) (0, none)).1

def handleTri (stream : String) (t : Toks) : Option String :=
  match stream with
  | "tri.points" =>
    let (tri, _) := triOf t
    let bb := tri.boundingBox
    let edgePts := tri.edgePoints
    let bits := (triGrown bb).pointsSpec.map (fun p => tri.containsWith edgePts p)
    some s!"bb={fmtRect bb} pts={fmtPtsDigest tri.points} in={triBitsDigest bits}"
  | "tri.outline" =>
    let (tri, _) := triOf t
    let px := (tri.outlinePixels 1).map (·.1)
    some s!"px={fmtPtsDigest px} n={triDistinct px}"
  | "tri.outline_al" =>
    let (tri, t) := triOf t
    let (a, _) := t.nat
    let al : TriAlign := if a == 0 then .inside else if a == 1 then .center else .outside
    let px := (tri.outlinePixelsAligned 1 al).map (·.1)
    some s!"px={fmtPtsDigest px} n={triDistinct px}"
  | "tri.pair" =>
    let (a, t) := t.pt
    let (b, t) := t.pt
    let (c, t) := t.pt
    let (d, _) := t.pt
    some s!"p1={fmtPtsDigest (Triangle.points ⟨a, b, c⟩)} p2={fmtPtsDigest (Triangle.points ⟨a, c, d⟩)}"
  | "tri.draw" =>
    -- what `draw()` leaves on a native-fill target with bounding box `B`: the model's point list
    -- (`points()` for a fill, the width-1 outline for a stroke) clipped to `B`, as a row-major set
    let (tri, t) := triOf t
    let (kind, t) := t.nat
    let (B, _) := t.rect
    let all : List Pt := if kind == 0 then tri.points else (tri.outlinePixels 1).map (·.1)
    let inside := (all.filter (fun p => B.contains p)).mergeSort ptLe
    let dedup := (inside.foldl (fun (acc : List Pt × Option Pt) p =>
      if acc.2 == some p then acc else (p :: acc.1, some p)) ([], none)).1.reverse
    some s!"m={fmtPtsDigest dedup}"
  | _ => none

end EG.Driver
