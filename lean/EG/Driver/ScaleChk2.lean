/-
  EG.Driver.ScaleChk2 — model side of the second group of `scale.chk.*` streams
  (harness/src/m_scale_chk2.rs): triangles, rounded rectangles, sectors / arcs, scanline
  drawing, glyph rendering. Same contract as Driver/Scale.lean: every op runs the checked kernels
  of `EG.Model.Checked*` on the path of ONE public-API call, in the order the Rust code evaluates
  them, and prints the canonical result, or `panic` where a checked kernel returns `none`.
  `none` (printed `skip`) where a plain model below the checked kernels gives up ("stuck").
-/
import EG.Driver.Util
import EG.Model.CheckedTriangle
import EG.Model.ThickTriangle
import EG.Model.CheckedRRect
import EG.Model.CheckedSector
namespace EG.Driver
open EG

private def orPanic2 {α : Type} (f : α → String) : Option α → String
  | some a => f a
  | none => "panic"

private def fmtBool2 (b : Bool) : String := if b then "1" else "0"

private def fmtTri (t : Triangle) : String :=
  s!"{t.v1.x},{t.v1.y};{t.v2.x},{t.v2.y};{t.v3.x},{t.v3.y}"

/-- result of a composite: `panic`, `skip` (a plain model below got stuck) or a value -/
private inductive R (α : Type) where
  | panic : R α
  | stuck : R α
  | ok : α → R α

private def R.bind {α β : Type} (r : R α) (f : α → R β) : R β :=
  match r with
  | .panic => .panic
  | .stuck => .stuck
  | .ok a => f a

private instance : Monad R where
  pure := R.ok
  bind := R.bind

/-- a checked kernel: `none` = panic -/
private def chk {α : Type} : Option α → R α
  | some a => .ok a
  | none => .panic

/-- a plain model with loop bounds: `none` = stuck -/
private def plain {α : Type} : Option α → R α
  | some a => .ok a
  | none => .stuck

private def R.out {α : Type} (f : α → String) : R α → Option String
  | .panic => some "panic"
  | .stuck => none
  | .ok a => some (f a)

/-! ### `LineJoin::from_points` and `Triangle::is_collapsed` (stroke offset `None`) -/

/-- `Line::extents(w, None)`: the checked scalars of `ParallelsIterator::new`, the lines from the
plain model. -/
private def extentsR (l : Line) (w : Nat) : R (Line × Line) := do
  let _ ← chk (Chk.thickScalars l (satAsI32 w))
  plain (Joins.extents l w .none)

/-- The arithmetic kernels on the path of `LineJoin::from_points(p0, p1, p2, w, None)` in their
order of evaluation (as `joinKernel` of Driver/Scale.lean), then the join of the plain model. -/
private def joinR (p0 p1 p2 : Pt) (w : Nat) : R Joins.LineJoin := do
  let (fl, fr) ← extentsR ⟨p0, p1⟩ w
  let (sl, sr) ← extentsR ⟨p1, p2⟩ w
  let r1 ← chk (Chk.Isect.fromLines sl fl)
  let i1 ← chk (Chk.Isect.intersection r1.1 r1.2.1 r1.2.2)
  match i1 with
  | none => pure ()
  | some (lpt, outerLeft) =>
    let nc1 ← chk (Chk.Isect.nearlyColinearHasError sl fl r1.2.2)
    let lInter := if !nc1 then lpt else fl.stop
    let r2 ← chk (Chk.Isect.fromLines sr fr)
    let i2 ← chk (Chk.Isect.intersection r2.1 r2.2.1 r2.2.2)
    match i2 with
    | none => pure ()
    | some (rpt, _) =>
      let nc2 ← chk (Chk.Isect.nearlyColinearHasError sr fr r2.2.2)
      let rInter := if !nc2 then rpt else fr.stop
      let selfIntersection ←
        if outerLeft then do
          let le ← chk (Chk.Isect.fromLine fr)
          let d ← chk (Chk.Isect.distance le sr.stop)
          pure (decide (d ≤ 0))
        else do
          let le ← chk (Chk.Isect.fromLine fl)
          let d ← chk (Chk.Isect.distance le sl.stop)
          pure (decide (d ≥ 0))
      if !selfIntersection then do
        let miterDelta ← chk (Chk.ptSub (if outerLeft then lInter else rInter) p1)
        let _ ← chk (Chk.Isect.miterWithinLimit miterDelta w)
        pure ()
      else pure ()
  pure (Joins.LineJoin.fromExtents p1 w fl fr sl sr)

private def triVertex (t : Triangle) (i : Nat) : Pt := t.vertex i

/-- The closure of `is_collapsed` for join `i`. -/
private def joinCollapsedR (t : Triangle) (w : Nat) (i : Nat) (join : Joins.LineJoin) : R Bool :=
  if join.isDegenerate then pure true
  else do
    let (_, opposite) ← extentsR ⟨triVertex t (i + 1), triVertex t (i + 2)⟩ w
    let le ← chk (Chk.Isect.fromLine opposite)
    let d ← chk (Chk.Isect.distance le join.firstEdgeEnd.right)
    pure (decide (d ≤ 0))

/-- `Triangle::is_collapsed(w, None)`: the three joins first, then `any` (short-circuit). -/
private def isCollapsedR (t : Triangle) (w : Nat) : R Bool := do
  let j1 ← joinR t.v3 t.v1 t.v2 w
  let j2 ← joinR t.v1 t.v2 t.v3 w
  let j3 ← joinR t.v2 t.v3 t.v1 w
  let c1 ← joinCollapsedR t w 0 j1
  if c1 then pure true
  else do
    let c2 ← joinCollapsedR t w 1 j2
    if c2 then pure true
    else joinCollapsedR t w 2 j3

/-! ### `Triangle::points().take(n)` -/

private structure TriPts where
  tri : Triangle        -- sorted clockwise
  rowsStart : Int
  rowsEnd : Int
  pending : Scanline    -- `lines.internal` of the current row
  cur : Scanline        -- `current_line`

/-- `take(fuel)` over `triangle::Points` (stroke width 0, fill: one scanline per row, the
iterator ends at the first row without intersection). -/
private def triPtsTake : Nat → TriPts → List Pt → R (List Pt)
  | 0, _, acc => pure acc.reverse
  | fuel + 1, st, acc =>
    match st.cur.next with
    | some (p, cur) => triPtsTake fuel { st with cur := cur } (p :: acc)
    | none =>
      if !st.pending.isEmpty then
        match st.pending.next with
        | some (p, cur) =>
          triPtsTake fuel { st with cur := cur, pending := Scanline.newEmpty st.pending.y } (p :: acc)
        | none => pure acc.reverse
      else if st.rowsStart < st.rowsEnd then do
        let y := st.rowsStart
        let s ← chk (Chk.Triangle.scanlineIntersection st.tri y)
        match s.next with
        | some (p, cur) =>
          triPtsTake fuel { st with rowsStart := y + 1, cur := cur, pending := Scanline.newEmpty y } (p :: acc)
        | none => pure acc.reverse
      else pure acc.reverse

/-- `Points::new`: `bounding_box`, `sorted_clockwise`, `rows()`, `ScanlineIntersections::new`
(`is_collapsed(0, None)` is evaluated although its result is discarded by `&& offset == Right`),
`generate_lines` of the first row. -/
private def triPoints (t : Triangle) (n : Nat) : R (List Pt) := do
  let bb ← chk (Chk.Triangle.boundingBox t)
  let tc ← chk (Chk.Triangle.sortedClockwise t)
  let rs := bb.tl.y
  let re := bb.rowsEnd
  if rs < re then do
    let _ ← isCollapsedR tc 0
    let s ← chk (Chk.Triangle.scanlineIntersection tc rs)
    triPtsTake n ⟨tc, rs + 1, re, s, Scanline.newEmpty 0⟩ []
  else pure []

/-! ### rounded rectangles -/

private def readRR (t : Toks) : RoundedRect × Toks :=
  let (r, t) := t.rect
  let (a, t) := t.sz; let (b, t) := t.sz; let (c, t) := t.sz; let (d, t) := t.sz
  (⟨r, ⟨a, b, c, d⟩⟩, t)

private def fmtRadii (c : CornerRadii) : String :=
  s!"{c.tl.w},{c.tl.h};{c.tr.w},{c.tr.h};{c.br.w},{c.br.h};{c.bl.w},{c.bl.h}"

/-- `rounded_rectangle.points().take(n)`: `Points::new` = `RoundedRectangleContains::new`; every
turn of the loop of `Points::next` either yields a point or fetches the next row (`fuel` bounds
the turns: `n` points plus all rows). -/
private def rrPtsTake : Nat → Nat → RRContains → Scanline → List Pt → Option (List Pt)
  | 0, _, _, _, acc => some acc.reverse
  | _, 0, _, _, acc => some acc.reverse
  | fuel + 1, n + 1, c, cur, acc =>
    match cur.next with
    | some (p, cur') => rrPtsTake fuel n c cur' (p :: acc)
    | none => do
      match ← Chk.RRContains.next c with
      | none => pure acc.reverse
      | some (s, c') => rrPtsTake fuel (n + 1) c' s acc

private def rrPoints (r : RoundedRect) (n : Nat) : Option (List Pt) := do
  let c ← Chk.RRContains.new r
  rrPtsTake (n + (c.rowsEnd - c.rowsStart).toNat + 2) n c (Scanline.newEmpty 0) []

/-! ### sectors and arcs -/

private def opOfTag2 : Nat → PlaneOp
  | 0 => .intersection
  | 1 => .union
  | _ => .entirePlane

/-- `x y d start_mdeg sweep_mdeg tag lx ly rx ry`: the plane sector is what the real
`PlaneSector::new(start, sweep)` returned (hook), see Driver/Sector.lean. -/
private def readSector (t : Toks) : (Pt × Nat × PlaneSector) × Toks :=
  let (tl, t) := t.pt
  let (d, t) := t.nat
  let (_start, t) := t.int
  let (_sweep, t) := t.int
  let (tag, t) := t.nat
  let (l, t) := t.pt
  let (r, t) := t.pt
  ((tl, d, ⟨opOfTag2 tag, l, r⟩), t)

private def fmtPs (ps : PlaneSector) : String :=
  let tag := match ps.op with | .intersection => 0 | .union => 1 | .entirePlane => 2
  s!"{tag},{ps.left.x},{ps.left.y},{ps.right.x},{ps.right.y}"

private def parseOptColor2 (s : String) : Option Color := if s == "-" then none else some (parseNat s)
private def alignOf2 : Nat → StrokeAlignment | 0 => .inside | 1 => .center | _ => .outside
private def readStyle (t : Toks) : Style × Toks :=
  let (f, t) := t.str
  let (s, t) := t.str
  let (w, t) := t.nat
  let (a, t) := t.nat
  (⟨parseOptColor2 f, parseOptColor2 s, w, alignOf2 a⟩, t)

/-- `iter.take(n)` over a checked `next : σ → Option (Option (α × σ))`. -/
private def takeChk {σ α : Type} (next : σ → Option (Option (α × σ))) : Nat → σ → List α → Option (List α)
  | 0, _, acc => some acc.reverse
  | n + 1, st, acc => do
    match ← next st with
    | none => pure acc.reverse
    | some (a, st') => takeChk next n st' (a :: acc)

private def readTri (t : Toks) : Triangle × Toks :=
  let (a, t) := t.pt; let (b, t) := t.pt; let (c, t) := t.pt
  (⟨a, b, c⟩, t)

def handleChk2 (kernel : String) (t : Toks) : Option String :=
  match kernel with
  | "tri.bbox" =>
    let (tr, _) := readTri t
    some (orPanic2 fmtRect (Chk.Triangle.boundingBox tr))
  | "tri.contains" =>
    let (tr, t) := readTri t; let (p, _) := t.pt
    some (orPanic2 fmtBool2 (Chk.Triangle.contains tr p))
  | "tri.translate" =>
    let (tr, t) := readTri t; let (d, _) := t.pt
    some (orPanic2 fmtTri (Chk.Triangle.translate tr d))
  | "tri.points" =>
    let (tr, t) := readTri t; let (n, _) := t.nat
    (triPoints tr n).out fmtPts
  | "rrect.confine" =>
    let (rr, _) := readRR t
    some (orPanic2 fmtRadii (Chk.CornerRadii.confine rr.corners rr.rect.size))
  | "rrect.contains" =>
    let (rr, t) := readRR t; let (p, _) := t.pt
    some (orPanic2 fmtBool2 (Chk.RoundedRect.contains rr p))
  | "rrect.offset" =>
    let (rr, t) := readRR t; let (o, _) := t.int
    some (orPanic2 (fun (r : RoundedRect) => s!"{fmtRect r.rect} {fmtRadii r.corners}") (Chk.RoundedRect.offset rr o))
  | "rrect.points" =>
    let (rr, t) := readRR t; let (n, _) := t.nat
    some (orPanic2 fmtPts (rrPoints rr n))
  | "sector.contains" =>
    let ((tl, d, ps), t) := readSector t; let (p, _) := t.pt
    some (orPanic2 (fun b => s!"ps={fmtPs ps} r={fmtBool2 b}") (Chk.Sector.contains ⟨tl, d, ps⟩ p))
  | "sector.offset" =>
    let ((tl, d, ps), t) := readSector t; let (o, _) := t.int
    some (orPanic2 (fun (s : Sector) => s!"{s.tl.x},{s.tl.y},{s.d}") (Chk.Sector.offset ⟨tl, d, ps⟩ o))
  | "sector.points" =>
    let ((tl, d, ps), t) := readSector t; let (n, _) := t.nat
    some (orPanic2 (fun l => s!"ps={fmtPs ps} pts={fmtPts l}")
      (do let it ← Chk.Sector.pointsIt ⟨tl, d, ps⟩; takeChk Chk.Sector.next n it []))
  | "arc.points" =>
    let ((tl, d, ps), t) := readSector t; let (n, _) := t.nat
    some (orPanic2 (fun l => s!"ps={fmtPs ps} pts={fmtPts l}")
      (do let it ← Chk.Arc.pointsIt ⟨tl, d, ps⟩; takeChk Chk.Arc.next n it []))
  | "sector.styled" =>
    let ((tl, d, ps), t) := readSector t
    let (bk, t) := t.nat; let (bn, t) := t.pt
    let (st, t) := readStyle t; let (n, _) := t.nat
    let bevel : SectorBevel :=
      if bk == 0 then none else some (if bk == 1 then BevelKind.interior else BevelKind.exterior, bn)
    some (orPanic2 (fun l => s!"ps={fmtPs ps} bv={bk},{bn.x},{bn.y} px={fmtPix l}")
      (do let it ← Chk.Sector.styledPixelsIt st ⟨tl, d, ps⟩ bevel; takeChk Chk.Sector.styledNext n it []))
  | "arc.styled" =>
    let ((tl, d, ps), t) := readSector t
    let (st, t) := readStyle t; let (n, _) := t.nat
    some (orPanic2 (fun l => s!"ps={fmtPs ps} px={fmtPix l}")
      (do let it ← Chk.Arc.styledPixelsIt st ⟨tl, d, ps⟩; takeChk Chk.Arc.styledNext n it []))
  | _ => none

end EG.Driver
