/-
  EG.Driver.ScaleChk2 — model side of the second group of `scale.chk.*` streams
  (harness/src/m_scale_chk2.rs): triangles, rounded rectangles, sectors / arcs, scanline
  drawing, glyph rendering. Same contract as Driver/Scale.lean: every op runs the checked kernels
  of `EG.Model.Checked*` on the path of ONE public-API call, in the order the Rust code evaluates
  them, and prints the canonical result, or `panic` where a checked kernel returns `none`.
  `none` (printed `skip`) where a plain model below the checked kernels gives up ("stuck").
-/
import EG.Driver.Util
import EG.Model.CheckedTriangle
import EG.Model.ThickTriangle
import EG.Model.CheckedRRect
import EG.Model.CheckedSector
import EG.Model.CheckedStyledScanline
import EG.Model.CheckedSegment
import EG.Model.ThickPolyline
import EG.Model.CheckedFont
import EG.Model.CheckedData
namespace EG.Driver
open EG

private def orPanic2 {α : Type} (f : α → String) : Option α → String
  | some a => f a
  | none => "panic"

private def fmtBool2 (b : Bool) : String := if b then "1" else "0"

private def fmtTri (t : Triangle) : String :=
  s!"{t.v1.x},{t.v1.y};{t.v2.x},{t.v2.y};{t.v3.x},{t.v3.y}"

/-- result of a composite: `panic`, `skip` (a plain model below got stuck) or a value -/
private inductive R (α : Type) where
  | panic : R α
  | stuck : R α
  | ok : α → R α

private def R.bind {α β : Type} (r : R α) (f : α → R β) : R β :=
  match r with
  | .panic => .panic
  | .stuck => .stuck
  | .ok a => f a

private instance : Monad R where
  pure := R.ok
  bind := R.bind

/-- a checked kernel: `none` = panic -/
private def chk {α : Type} : Option α → R α
  | some a => .ok a
  | none => .panic

/-- a plain model with loop bounds: `none` = stuck -/
private def plain {α : Type} : Option α → R α
  | some a => .ok a
  | none => .stuck

private def R.out {α : Type} (f : α → String) : R α → Option String
  | .panic => some "panic"
  | .stuck => none
  | .ok a => some (f a)

/-! ### `LineJoin::from_points` and `Triangle::is_collapsed` (stroke offset `None`) -/

/-- `Line::extents(w, None)`: the checked scalars of `ParallelsIterator::new`, the lines from the
plain model. -/
private def extentsR (l : Line) (w : Nat) : R (Line × Line) := do
  let _ ← chk (Chk.thickScalars l (satAsI32 w))
  plain (Joins.extents l w .none)

/-- The arithmetic kernels on the path of `LineJoin::from_points(p0, p1, p2, w, None)` in their
order of evaluation (as `joinKernel` of Driver/Scale.lean), then the join of the plain model. -/
private def joinR (p0 p1 p2 : Pt) (w : Nat) : R Joins.LineJoin := do
  let (fl, fr) ← extentsR ⟨p0, p1⟩ w
  let (sl, sr) ← extentsR ⟨p1, p2⟩ w
  let r1 ← chk (Chk.Isect.fromLines sl fl)
  let i1 ← chk (Chk.Isect.intersection r1.1 r1.2.1 r1.2.2)
  match i1 with
  | none => pure ()
  | some (lpt, outerLeft) =>
    let nc1 ← chk (Chk.Isect.nearlyColinearHasError sl fl r1.2.2)
    let lInter := if !nc1 then lpt else fl.stop
    let r2 ← chk (Chk.Isect.fromLines sr fr)
    let i2 ← chk (Chk.Isect.intersection r2.1 r2.2.1 r2.2.2)
    match i2 with
    | none => pure ()
    | some (rpt, _) =>
      let nc2 ← chk (Chk.Isect.nearlyColinearHasError sr fr r2.2.2)
      let rInter := if !nc2 then rpt else fr.stop
      let selfIntersection ←
        if outerLeft then do
          let le ← chk (Chk.Isect.fromLine fr)
          let d ← chk (Chk.Isect.distance le sr.stop)
          pure (decide (d ≤ 0))
        else do
          let le ← chk (Chk.Isect.fromLine fl)
          let d ← chk (Chk.Isect.distance le sl.stop)
          pure (decide (d ≥ 0))
      if !selfIntersection then do
        let miterDelta ← chk (Chk.ptSub (if outerLeft then lInter else rInter) p1)
        let _ ← chk (Chk.Isect.miterWithinLimit miterDelta w)
        pure ()
      else pure ()
  pure (Joins.LineJoin.fromExtents p1 w fl fr sl sr)

private def triVertex (t : Triangle) (i : Nat) : Pt := t.vertex i

/-- The closure of `is_collapsed` for join `i`. -/
private def joinCollapsedR (t : Triangle) (w : Nat) (i : Nat) (join : Joins.LineJoin) : R Bool :=
  if join.isDegenerate then pure true
  else do
    let (_, opposite) ← extentsR ⟨triVertex t (i + 1), triVertex t (i + 2)⟩ w
    let le ← chk (Chk.Isect.fromLine opposite)
    let d ← chk (Chk.Isect.distance le join.firstEdgeEnd.right)
    pure (decide (d ≤ 0))

/-- `Triangle::is_collapsed(w, None)`: the three joins first, then `any` (short-circuit). -/
private def isCollapsedR (t : Triangle) (w : Nat) : R Bool := do
  let j1 ← joinR t.v3 t.v1 t.v2 w
  let j2 ← joinR t.v1 t.v2 t.v3 w
  let j3 ← joinR t.v2 t.v3 t.v1 w
  let c1 ← joinCollapsedR t w 0 j1
  if c1 then pure true
  else do
    let c2 ← joinCollapsedR t w 1 j2
    if c2 then pure true
    else joinCollapsedR t w 2 j3

/-! ### `Triangle::points().take(n)` -/

private structure TriPts where
  tri : Triangle        -- sorted clockwise
  rowsStart : Int
  rowsEnd : Int
  pending : Scanline    -- `lines.internal` of the current row
  cur : Scanline        -- `current_line`

/-- `take(fuel)` over `triangle::Points` (stroke width 0, fill: one scanline per row, the
iterator ends at the first row without intersection). -/
private def triPtsTake : Nat → TriPts → List Pt → R (List Pt)
  | 0, _, acc => pure acc.reverse
  | fuel + 1, st, acc =>
    match st.cur.next with
    | some (p, cur) => triPtsTake fuel { st with cur := cur } (p :: acc)
    | none =>
      if !st.pending.isEmpty then
        match st.pending.next with
        | some (p, cur) =>
          triPtsTake fuel { st with cur := cur, pending := Scanline.newEmpty st.pending.y } (p :: acc)
        | none => pure acc.reverse
      else if st.rowsStart < st.rowsEnd then do
        let y := st.rowsStart
        let s ← chk (Chk.Triangle.scanlineIntersection st.tri y)
        match s.next with
        | some (p, cur) =>
          triPtsTake fuel { st with rowsStart := y + 1, cur := cur, pending := Scanline.newEmpty y } (p :: acc)
        | none => pure acc.reverse
      else pure acc.reverse

/-- `Points::new`: `bounding_box`, `sorted_clockwise`, `rows()`, `ScanlineIntersections::new`
(`is_collapsed(0, None)` is evaluated although its result is discarded by `&& offset == Right`),
`generate_lines` of the first row. -/
private def triPoints (t : Triangle) (n : Nat) : R (List Pt) := do
  let bb ← chk (Chk.Triangle.boundingBox t)
  let tc ← chk (Chk.Triangle.sortedClockwise t)
  let rs := bb.tl.y
  let re := bb.rowsEnd
  if rs < re then do
    let _ ← isCollapsedR tc 0
    let s ← chk (Chk.Triangle.scanlineIntersection tc rs)
    triPtsTake n ⟨tc, rs + 1, re, s, Scanline.newEmpty 0⟩ []
  else pure []

/-! ### rounded rectangles -/

private def readRR (t : Toks) : RoundedRect × Toks :=
  let (r, t) := t.rect
  let (a, t) := t.sz; let (b, t) := t.sz; let (c, t) := t.sz; let (d, t) := t.sz
  (⟨r, ⟨a, b, c, d⟩⟩, t)

private def fmtRadii (c : CornerRadii) : String :=
  s!"{c.tl.w},{c.tl.h};{c.tr.w},{c.tr.h};{c.br.w},{c.br.h};{c.bl.w},{c.bl.h}"

/-- `rounded_rectangle.points().take(n)`: `Points::new` = `RoundedRectangleContains::new`; every
turn of the loop of `Points::next` either yields a point or fetches the next row (`fuel` bounds
the turns: `n` points plus all rows). -/
private def rrPtsTake : Nat → Nat → RRContains → Scanline → List Pt → Option (List Pt)
  | 0, _, _, _, acc => some acc.reverse
  | _, 0, _, _, acc => some acc.reverse
  | fuel + 1, n + 1, c, cur, acc =>
    match cur.next with
    | some (p, cur') => rrPtsTake fuel n c cur' (p :: acc)
    | none => do
      match ← Chk.RRContains.next c with
      | none => pure acc.reverse
      | some (s, c') => rrPtsTake fuel (n + 1) c' s acc

private def rrPoints (r : RoundedRect) (n : Nat) : Option (List Pt) := do
  let c ← Chk.RRContains.new r
  rrPtsTake (n + (c.rowsEnd - c.rowsStart).toNat + 2) n c (Scanline.newEmpty 0) []

/-! ### sectors and arcs -/

private def opOfTag2 : Nat → PlaneOp
  | 0 => .intersection
  | 1 => .union
  | _ => .entirePlane

/-- `x y d start_mdeg sweep_mdeg tag lx ly rx ry`: the plane sector is what the real
`PlaneSector::new(start, sweep)` returned (hook), see Driver/Sector.lean. -/
private def readSector (t : Toks) : (Pt × Nat × PlaneSector) × Toks :=
  let (tl, t) := t.pt
  let (d, t) := t.nat
  let (_start, t) := t.int
  let (_sweep, t) := t.int
  let (tag, t) := t.nat
  let (l, t) := t.pt
  let (r, t) := t.pt
  ((tl, d, ⟨opOfTag2 tag, l, r⟩), t)

private def fmtPs (ps : PlaneSector) : String :=
  let tag := match ps.op with | .intersection => 0 | .union => 1 | .entirePlane => 2
  s!"{tag},{ps.left.x},{ps.left.y},{ps.right.x},{ps.right.y}"

private def parseOptColor2 (s : String) : Option Color := if s == "-" then none else some (parseNat s)
private def alignOf2 : Nat → StrokeAlignment | 0 => .inside | 1 => .center | _ => .outside
private def readStyle (t : Toks) : Style × Toks :=
  let (f, t) := t.str
  let (s, t) := t.str
  let (w, t) := t.nat
  let (a, t) := t.nat
  (⟨parseOptColor2 f, parseOptColor2 s, w, alignOf2 a⟩, t)

/-- `iter.take(n)` over a checked `next : σ → Option (Option (α × σ))`. -/
private def takeChk {σ α : Type} (next : σ → Option (Option (α × σ))) : Nat → σ → List α → Option (List α)
  | 0, _, acc => some acc.reverse
  | n + 1, st, acc => do
    match ← next st with
    | none => pure acc.reverse
    | some (a, st') => takeChk next n st' (a :: acc)

/-! ### scanline-based styled shapes: `pixels().take(n)` and the first `n` calls of `draw` -/

/-- `StyledPixelsIterator::next` of circle / ellipse / rounded rectangle (the three are textually
identical) over a checked source of styled scanlines; `fuel` bounds the turns of the loops. -/
private def pixTake {σ : Type} (next : σ → Option (Option StyledScanline × σ)) (sc fc : Option Color) :
    Nat → Nat → σ → Scanline → Scanline → Scanline → List (Pt × Color) → Option (List (Pt × Color))
  | 0, _, _, _, _, _, acc => some acc.reverse
  | _, 0, _, _, _, _, acc => some acc.reverse
  | fuel + 1, n + 1, st, sl, f, sr, acc =>
    match sc, fc with
    | none, none => some acc.reverse
    | some s, none =>
      match sl.next with
      | some (p, sl') => pixTake next sc fc fuel n st sl' f sr ((p, s) :: acc)
      | none =>
        match sr.next with
        | some (p, sr') => pixTake next sc fc fuel n st sl f sr' ((p, s) :: acc)
        | none => do
          let r ← next st
          match r.1 with
          | none => pure acc.reverse
          | some l => pixTake next sc fc fuel (n + 1) r.2 l.strokeLeft f l.strokeRight acc
    | some s, some c =>
      match sl.next with
      | some (p, sl') => pixTake next sc fc fuel n st sl' f sr ((p, s) :: acc)
      | none =>
        match f.next with
        | some (p, f') => pixTake next sc fc fuel n st sl f' sr ((p, c) :: acc)
        | none =>
          match sr.next with
          | some (p, sr') => pixTake next sc fc fuel n st sl f sr' ((p, s) :: acc)
          | none => do
            let r ← next st
            match r.1 with
            | none => pure acc.reverse
            | some l => pixTake next sc fc fuel (n + 1) r.2 l.strokeLeft l.fill l.strokeRight acc
    | none, some c =>
      match f.next with
      | some (p, f') => pixTake next sc fc fuel n st sl f' sr ((p, c) :: acc)
      | none => do
        let r ← next st
        match r.1 with
        | none => pure acc.reverse
        | some l => pixTake next sc fc fuel (n + 1) r.2 sl l.fill sr acc

/-- One `Scanline::draw` on a target that fails from call `n + 1` on: `none` inside = the target
returned an error (the draw ends), else the calls so far. -/
private def drawPart (n : Nat) (acc : List (Rect × Color)) (s : Scanline) (c : Color) :
    Option (Option (List (Rect × Color))) := do
  match ← Chk.Scanline.drawRect s with
  | none => pure (some acc)
  | some r => if acc.length ≥ n then pure none else pure (some ((r, c) :: acc))

/-- The `for scanline in StyledScanlines { draw_stroke / draw_stroke_and_fill }` loop. -/
private def drawStyledTake {σ : Type} (next : σ → Option (Option StyledScanline × σ)) (sc : Color)
    (fc : Option Color) (n : Nat) : Nat → σ → List (Rect × Color) → Option (List (Rect × Color))
  | 0, _, acc => some acc.reverse
  | fuel + 1, st, acc => do
    let r ← next st
    match r.1 with
    | none => pure acc.reverse
    | some l =>
      match ← drawPart n acc l.strokeLeft sc with
      | none => pure acc.reverse
      | some acc =>
        let mid ← match fc with
          | some c => drawPart n acc l.fill c
          | none => pure (some acc)
        match mid with
        | none => pure acc.reverse
        | some acc =>
          match ← drawPart n acc l.strokeRight sc with
          | none => pure acc.reverse
          | some acc => drawStyledTake next sc fc n fuel r.2 acc

/-- The `for scanline in Scanlines { scanline.draw }` loop of the fill-only arm. -/
private def drawFillTake {σ : Type} (next : σ → Option (Option Scanline × σ)) (c : Color) (n : Nat) :
    Nat → σ → List (Rect × Color) → Option (List (Rect × Color))
  | 0, _, acc => some acc.reverse
  | fuel + 1, st, acc => do
    let r ← next st
    match r.1 with
    | none => pure acc.reverse
    | some l =>
      match ← drawPart n acc l c with
      | none => pure acc.reverse
      | some acc => drawFillTake next c n fuel r.2 acc

private def fmtCalls (l : List (Rect × Color)) : String :=
  joinOr ";" (l.map (fun (r, c) => s!"{r.tl.x},{r.tl.y},{r.size.w},{r.size.h},{c}"))

private def readPrimStyle (t : Toks) : PrimStyle × Toks :=
  let (st, t) := readStyle t
  (⟨st.fill, st.stroke, st.width, st.align⟩, t)

private def rowsOf (a b : Int) : Nat := (b - a).toNat + 2

/-- `circle.into_styled(style).pixels().take(n)`. -/
private def circlePixels (c : Circle) (st : PrimStyle) (n : Nat) : Option (List (Pt × Color)) := do
  let sa ← Chk.Circle.offset c st.strokeOffset
  let fo ← Chk.chkI32 (-(satAsI32 st.insideStrokeWidth))
  let fa ← Chk.Circle.offset c fo
  let it ← Chk.Circle.styledScanlines sa fa
  pixTake Chk.Circle.styledNext st.strokeColor st.fillColor (n + rowsOf it.scanlines.y it.scanlines.yEnd) n it
    (Scanline.newEmpty 0) (Scanline.newEmpty 0) (Scanline.newEmpty 0) []

/-- the first `n` `fill_solid` calls of `circle.into_styled(style).draw(target)`. -/
private def circleDraw (c : Circle) (st : PrimStyle) (n : Nat) : Option (List (Rect × Color)) :=
  match st.effectiveStrokeColor, st.fillColor with
  | some sc, fc => do
    let sa ← Chk.Circle.offset c st.strokeOffset
    let fo ← Chk.chkI32 (-(satAsI32 st.insideStrokeWidth))
    let fa ← Chk.Circle.offset c fo
    let it ← Chk.Circle.styledScanlines sa fa
    drawStyledTake Chk.Circle.styledNext sc fc n (rowsOf it.scanlines.y it.scanlines.yEnd) it []
  | none, some fc => do
    let fo ← Chk.chkI32 (-(satAsI32 st.insideStrokeWidth))
    let fa ← Chk.Circle.offset c fo
    let it ← Chk.Circle.scanlines fa
    drawFillTake Chk.Circle.next fc n (rowsOf it.y it.yEnd) it []
  | none, none => pure []

private def ellipsePixels (e : Ellipse) (st : PrimStyle) (n : Nat) : Option (List (Pt × Color)) := do
  let sa ← Chk.Ellipse.offset e st.strokeOffset
  let fo ← Chk.chkI32 (-(satAsI32 st.insideStrokeWidth))
  let fa ← Chk.Ellipse.offset e fo
  let it ← Chk.Ellipse.styledScanlines sa fa
  pixTake Chk.Ellipse.styledNext st.strokeColor st.fillColor (n + rowsOf it.scanlines.y it.scanlines.yEnd) n it
    (Scanline.newEmpty 0) (Scanline.newEmpty 0) (Scanline.newEmpty 0) []

private def ellipseDraw (e : Ellipse) (st : PrimStyle) (n : Nat) : Option (List (Rect × Color)) :=
  match st.effectiveStrokeColor, st.fillColor with
  | some sc, fc => do
    let sa ← Chk.Ellipse.offset e st.strokeOffset
    let fo ← Chk.chkI32 (-(satAsI32 st.insideStrokeWidth))
    let fa ← Chk.Ellipse.offset e fo
    let it ← Chk.Ellipse.styledScanlines sa fa
    drawStyledTake Chk.Ellipse.styledNext sc fc n (rowsOf it.scanlines.y it.scanlines.yEnd) it []
  | none, some fc => do
    let fo ← Chk.chkI32 (-(satAsI32 st.insideStrokeWidth))
    let fa ← Chk.Ellipse.offset e fo
    let it ← Chk.Ellipse.scanlines fa
    drawFillTake Chk.Ellipse.next fc n (rowsOf it.y it.yEnd) it []
  | none, none => pure []

/-- `rounded_rectangle::styled::StyledScanlines::next`. -/
private def rrStyledNext (st : RRContains × RRContains) :
    Option (Option StyledScanline × (RRContains × RRContains)) := do
  match ← Chk.RRContains.next st.1 with
  | none => pure (none, st)
  | some (s, c') =>
    let fr ← Chk.RRContains.fillRange st.2 s
    pure (some (StyledScanline.new s.y s.xs s.xe fr), (c', st.2))

private def rrPlainNext (c : RRContains) : Option (Option Scanline × RRContains) := do
  match ← Chk.RRContains.next c with
  | none => pure (none, c)
  | some (s, c') => pure (some s, c')

private def rrAreas (r : RoundedRect) (st : Style) : Option (RRContains × RRContains) := do
  let sa ← Chk.RoundedRect.offset r st.strokeOffset
  let fo ← Chk.chkI32 (-(satAsI32 st.insideStrokeWidth))
  let fa ← Chk.RoundedRect.offset r fo
  let s ← Chk.RRContains.new sa
  let f ← Chk.RRContains.new fa
  pure (s, f)

private def rrStyledPixels (r : RoundedRect) (st : Style) (n : Nat) : Option (List (Pt × Color)) := do
  let a ← rrAreas r st
  pixTake rrStyledNext st.stroke st.fill (n + rowsOf a.1.rowsStart a.1.rowsEnd) n a
    (Scanline.newEmpty 0) (Scanline.newEmpty 0) (Scanline.newEmpty 0) []

private def rrDraw (r : RoundedRect) (st : Style) (n : Nat) : Option (List (Rect × Color)) :=
  match st.effectiveStrokeColor, st.fill with
  | some sc, fc => do
    let a ← rrAreas r st
    drawStyledTake rrStyledNext sc fc n (rowsOf a.1.rowsStart a.1.rowsEnd) a []
  | none, some fc => do
    let fo ← Chk.chkI32 (-(satAsI32 st.insideStrokeWidth))
    let fa ← Chk.RoundedRect.offset r fo
    let c ← Chk.RRContains.new fa
    drawFillTake rrPlainNext fc n (rowsOf c.rowsStart c.rowsEnd) c []
  | none, none => pure []

/-! ### a thick polyline of three vertices: the first `n` calls of `draw` -/

/-- `LineJoin::start` / `LineJoin::end` (extents only). -/
private def capJoinR (a b : Pt) (w : Nat) (atStart : Bool) : R Joins.LineJoin := do
  let (l, r) ← extentsR ⟨a, b⟩ w
  pure (if atStart then ⟨.start, ⟨l.start, r.start⟩, ⟨l.start, r.start⟩⟩
        else ⟨.stop, ⟨l.stop, r.stop⟩, ⟨l.stop, r.stop⟩⟩)

/-- One row of `polyline::ScanlineIntersections` for two segments, as `ScanlineIterator::next`
and `draw_thick` consume it: the non-empty scanlines of the row, in order. -/
private def polyRow (s1 s2 : Joins.ThickSegment) (y : Int) : R (List Scanline) := do
  let sc1 ← chk (Chk.Joins.ThickSegment.intersection s1 y)
  let sc2 ← chk (Chk.Joins.ThickSegment.intersection s2 y)
  -- segment 1 against the empty accumulator: never extends (an empty scanline touches nothing)
  let e0 ← chk (Chk.Scanline.tryExtend (Scanline.newEmpty y) sc1)
  let (first, acc) := if e0.1 then (none, e0.2) else (some (Scanline.newEmpty y), sc1)
  let e1 ← chk (Chk.Scanline.tryExtend acc sc2)
  let out := if e1.1 then [first, some e1.2] else [first, some acc, some sc2]
  pure (out.filterMap (fun o => match o with
    | some s => if s.isEmpty then none else some s
    | none => none))

private def polyDrawRows (s1 s2 : Joins.ThickSegment) (c : Color) (n : Nat) :
    Nat → Int → Int → List (Rect × Color) → R (List (Rect × Color))
  | 0, _, _, acc => pure acc.reverse
  | fuel + 1, y, yEnd, acc =>
    if y < yEnd then do
      let ls ← polyRow s1 s2 y
      -- `to_rectangle`, `is_zero_sized`, `fill_solid` per scanline; the target fails from call n + 1 on
      -- state: the calls so far and whether the target has returned its error
      let step : List (Rect × Color) × Bool → Scanline → R (List (Rect × Color) × Bool) := fun st l =>
        if st.2 then pure st
        else do
          let r ← chk (Chk.Scanline.toRectangle l)
          if r.isZeroSized then pure st
          else if st.1.length ≥ n then pure (st.1, true)
          else pure ((r, c) :: st.1, false)
      let mut st : List (Rect × Color) × Bool := (acc, false)
      for l in ls do
        st ← step st l
      if st.2 then pure st.1.reverse
      else polyDrawRows s1 s2 c n fuel (y + 1) yEnd st.1
    else pure acc.reverse

/-- `Polyline::new(&[p0, p1, p2]).into_styled(PrimitiveStyle::with_stroke(c, w)).draw(target)`,
`w >= 2`: `untranslated_bounding_box` (all joins, the fold), then row by row. -/
private def polyDraw (p0 p1 p2 : Pt) (w : Nat) (c : Color) (n : Nat) : R (List (Rect × Color)) := do
  let j0 ← capJoinR p0 p1 w true
  let j1 ← joinR p0 p1 p2 w
  let j2 ← capJoinR p1 p2 w false
  let s1 : Joins.ThickSegment := ⟨j0, j1⟩
  let s2 : Joins.ThickSegment := ⟨j1, j2⟩
  let bb ← chk (Chk.Joins.foldEdgeBoxes [s1, s2])
  polyDrawRows s1 s2 c n ((bb.rowsEnd - bb.tl.y).toNat + 1) bb.tl.y bb.rowsEnd []

/-! ### glyph rendering: `MonoTextStyle::draw_string` with a user-defined font over a blank atlas -/

private def fmtGlyphCall : Call → String
  | .drawIter px => s!"di:{px.length}"
  | .fillContiguous a cs => s!"fc:{fmtRect a}:{cs.length}"
  | .fillSolid a c => s!"fs:{fmtRect a}:{c}"
  | .clear c => s!"cl:{c}"

private def decoOf (n : Nat) : Font.DecoColor := if n == 0 then .none else if n == 1 then .textColor else .custom 5

private def baselineOf (n : Nat) : Font.Baseline :=
  if n == 0 then .top else if n == 1 then .bottom else if n == 2 then .middle else .alphabetic

private def readTri (t : Toks) : Triangle × Toks :=
  let (a, t) := t.pt; let (b, t) := t.pt; let (c, t) := t.pt
  (⟨a, b, c⟩, t)

def handleChk2 (kernel : String) (t : Toks) : Option String :=
  match kernel with
  | "tri.bbox" =>
    let (tr, _) := readTri t
    some (orPanic2 fmtRect (Chk.Triangle.boundingBox tr))
  | "tri.contains" =>
    let (tr, t) := readTri t; let (p, _) := t.pt
    some (orPanic2 fmtBool2 (Chk.Triangle.contains tr p))
  | "tri.translate" =>
    let (tr, t) := readTri t; let (d, _) := t.pt
    some (orPanic2 fmtTri (Chk.Triangle.translate tr d))
  | "tri.points" =>
    let (tr, t) := readTri t; let (n, _) := t.nat
    (triPoints tr n).out fmtPts
  | "rrect.confine" =>
    let (rr, _) := readRR t
    some (orPanic2 fmtRadii (Chk.CornerRadii.confine rr.corners rr.rect.size))
  | "rrect.contains" =>
    let (rr, t) := readRR t; let (p, _) := t.pt
    some (orPanic2 fmtBool2 (Chk.RoundedRect.contains rr p))
  | "rrect.offset" =>
    let (rr, t) := readRR t; let (o, _) := t.int
    some (orPanic2 (fun (r : RoundedRect) => s!"{fmtRect r.rect} {fmtRadii r.corners}") (Chk.RoundedRect.offset rr o))
  | "rrect.points" =>
    let (rr, t) := readRR t; let (n, _) := t.nat
    some (orPanic2 fmtPts (rrPoints rr n))
  | "sector.contains" =>
    let ((tl, d, ps), t) := readSector t; let (p, _) := t.pt
    some (orPanic2 (fun b => s!"ps={fmtPs ps} r={fmtBool2 b}") (Chk.Sector.contains ⟨tl, d, ps⟩ p))
  | "sector.offset" =>
    let ((tl, d, ps), t) := readSector t; let (o, _) := t.int
    some (orPanic2 (fun (s : Sector) => s!"{s.tl.x},{s.tl.y},{s.d}") (Chk.Sector.offset ⟨tl, d, ps⟩ o))
  | "sector.points" =>
    let ((tl, d, ps), t) := readSector t; let (n, _) := t.nat
    some (orPanic2 (fun l => s!"ps={fmtPs ps} pts={fmtPts l}")
      (do let it ← Chk.Sector.pointsIt ⟨tl, d, ps⟩; takeChk Chk.Sector.next n it []))
  | "arc.points" =>
    let ((tl, d, ps), t) := readSector t; let (n, _) := t.nat
    some (orPanic2 (fun l => s!"ps={fmtPs ps} pts={fmtPts l}")
      (do let it ← Chk.Arc.pointsIt ⟨tl, d, ps⟩; takeChk Chk.Arc.next n it []))
  | "sector.styled" =>
    let ((tl, d, ps), t) := readSector t
    let (bk, t) := t.nat; let (bn, t) := t.pt
    let (st, t) := readStyle t; let (n, _) := t.nat
    let bevel : SectorBevel :=
      if bk == 0 then none else some (if bk == 1 then BevelKind.interior else BevelKind.exterior, bn)
    some (orPanic2 (fun l => s!"ps={fmtPs ps} bv={bk},{bn.x},{bn.y} px={fmtPix l}")
      (do let it ← Chk.Sector.styledPixelsIt st ⟨tl, d, ps⟩ bevel; takeChk Chk.Sector.styledNext n it []))
  | "arc.styled" =>
    let ((tl, d, ps), t) := readSector t
    let (st, t) := readStyle t; let (n, _) := t.nat
    some (orPanic2 (fun l => s!"ps={fmtPs ps} px={fmtPix l}")
      (do let it ← Chk.Arc.styledPixelsIt st ⟨tl, d, ps⟩; takeChk Chk.Arc.styledNext n it []))
  | "circle.styled" =>
    let (tl, t) := t.pt; let (d, t) := t.nat; let (st, t) := readPrimStyle t; let (n, _) := t.nat
    some (orPanic2 fmtPix (circlePixels ⟨tl, d⟩ st n))
  | "circle.draw" =>
    let (tl, t) := t.pt; let (d, t) := t.nat; let (st, t) := readPrimStyle t; let (n, _) := t.nat
    some (orPanic2 fmtCalls (circleDraw ⟨tl, d⟩ st n))
  | "ellipse.styled" =>
    let (tl, t) := t.pt; let (sz, t) := t.sz; let (st, t) := readPrimStyle t; let (n, _) := t.nat
    some (orPanic2 fmtPix (ellipsePixels ⟨tl, sz⟩ st n))
  | "ellipse.draw" =>
    let (tl, t) := t.pt; let (sz, t) := t.sz; let (st, t) := readPrimStyle t; let (n, _) := t.nat
    some (orPanic2 fmtCalls (ellipseDraw ⟨tl, sz⟩ st n))
  | "rrect.styled" =>
    let (rr, t) := readRR t; let (st, t) := readStyle t; let (n, _) := t.nat
    some (orPanic2 fmtPix (rrStyledPixels rr st n))
  | "rrect.draw" =>
    let (rr, t) := readRR t; let (st, t) := readStyle t; let (n, _) := t.nat
    some (orPanic2 fmtCalls (rrDraw rr st n))
  | "poly.draw" =>
    let (p0, t) := t.pt; let (p1, t) := t.pt; let (p2, t) := t.pt
    let (w, t) := t.nat; let (n, _) := t.nat
    (polyDraw p0 p1 p2 w 9 n).out fmtCalls
  | "drawsub" =>
    let (via, t) := t.nat; let (area, _) := t.rect
    let im : Img.ImageRaw := ⟨1, .le, [], ⟨5, 3⟩⟩
    some (orPanic2 (fun (r : Option (Nat × Nat)) => s!"calls={if r.isSome then 1 else 0}")
      (if via == 0 then Chk.drawSubImageSkips im area
       else Chk.subDrawSubImageSkips im ⟨⟨1, 1⟩, ⟨3, 2⟩⟩ area))
  | "glyph" =>
    let (imgW, t) := t.nat; let (imgH, t) := t.nat; let (cw, t) := t.nat; let (ch, t) := t.nat
    let (sp, t) := t.nat; let (bl, t) := t.nat; let (ulOff, t) := t.nat; let (ulH, t) := t.nat
    let (stOff, t) := t.nat; let (stH, t) := t.nat; let (mul, t) := t.nat
    let (colours, t) := t.nat; let (ul, t) := t.nat; let (st, t) := t.nat; let (base, t) := t.nat
    let (pos, t) := t.pt; let (text, _) := t.natList
    let f : Font.MonoFont := ⟨imgW, imgH, cw, ch, sp, bl, ulOff, ulH, stOff, stH, fun c => (c - 32) * mul⟩
    let style : Font.Style :=
      ⟨if colours % 2 == 1 then some 1 else none, if colours / 2 % 2 == 1 then some 2 else none,
       decoOf ul, decoOf st⟩
    some (orPanic2 (fun (r : List Call × Pt) =>
        s!"calls={joinOr "|" (r.1.map fmtGlyphCall)} next={r.2.x},{r.2.y}")
      (Chk.Font.drawString f (fun _ => false) style text pos (baselineOf base)))
  | _ => none

end EG.Driver
