/-
  EG.Driver.Text — model side of the `text.*` correspondence streams (harness/src/m_text.rs).
-/
import EG.Driver.Util
namespace EG.Driver
open EG

def handleText (_stream : String) (_t : Toks) : Option String := none

end EG.Driver
