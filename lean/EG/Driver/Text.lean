/-
  EG.Driver.Text — model side of the `text.*` correspondence streams (harness/src/m_text.rs).

  Streams (formats documented in m_text.rs):
    text.layout  <fontspec> <bl> <al> <lhk> <lhv> <tc> <bg> <ul> <st> <x> <y> <cps>
                 -> next=<x,y> bb=<rect> px=<n>:<hash>:<extent>|-
    text.tr      <the same tokens> <dx> <dy>     -> the same for `translate(d)` + ` mut=same|diff`
    text.measure <fontspec> <bl> <tc> <bg> <ul> <st> <x> <y> <cps>
                 -> bb=<rect> mnext=<x,y> dnext=<x,y> lh=<n>
    text.chain   <fontspec> <bl> <al> <tc> <bg> <ul> <st> <x> <y> <cps1> <cps2>
                 -> n1=<x,y> n2=<x,y> n12=<x,y>
  The picture (`px`) is produced from the call list of `TextLayout.draw` (the `Font.drawString` model) only
  when no pixel depends on a glyph bitmap (text colour == background colour, or neither set); the atlas
  handed to the model is then irrelevant (all-off here).
-/
import EG.Driver.Util
import EG.Model.TextLayout
namespace EG.Driver
open EG EG.Font EG.TextLayout

private def tlFields (s : String) : List String := s.splitOn ":"

/-- `b:<fid>` or `c:<cw>:<ch>:<sp>:<bl>:<ulOff>:<ulH>:<stOff>:<stH>` (harness-built font: mapping
`"\0 ~"`, replacement 31, atlas of 16 x 6 cells). -/
private def tlParseFont (s : String) : Option MonoFont :=
  match tlFields s with
  | ["b", fid] =>
    match Generated.fontTable[parseNat fid]? with
    | some r => some (fontOfRec r)
    | none => none
  | ["c", cw, ch, sp, bl, uo, uh, so, sh] =>
    let m : StrMapping := ⟨[0, 32, 126], 31⟩
    some { imgW := 16 * parseNat cw, imgH := 6 * parseNat ch, cw := parseNat cw, ch := parseNat ch,
           spacing := parseNat sp, baseline := parseNat bl, ulOff := parseNat uo, ulH := parseNat uh,
           stOff := parseNat so, stH := parseNat sh, index := m.index }
  | _ => none

private def tlOptColor (s : String) : Option Color := if s == "-" then none else some (parseNat s)

private def tlDeco (s : String) : DecoColor :=
  if s == "n" then .none else if s == "t" then .textColor else .custom (parseNat s)

private def tlBaseline : Nat → Baseline
  | 0 => .top
  | 1 => .bottom
  | 2 => .middle
  | _ => .alphabetic

private def tlAlignment : Nat → Alignment
  | 0 => .left
  | 1 => .center
  | _ => .right

private def tlStyle (t : Toks) : Style × Toks :=
  let (tc, t) := t.str
  let (bg, t) := t.str
  let (ul, t) := t.str
  let (st, t) := t.str
  (⟨tlOptColor tc, tlOptColor bg, tlDeco ul, tlDeco st⟩, t)

/-- the tokens of a layout op after the fontspec -/
private def tlParseLayout (t : Toks) : Text × Toks :=
  let (bl, t) := t.nat
  let (al, t) := t.nat
  let (lhk, t) := t.str
  let (lhv, t) := t.nat
  let (st, t) := tlStyle t
  let (pos, t) := t.pt
  let (cps, t) := t.natList
  let lh : LineHeight := if lhk == "p" then .pixels lhv else .percent lhv
  (⟨cps, pos, st, ⟨tlAlignment al, tlBaseline bl, lh⟩⟩, t)

private def tlDetermined (st : Style) : Bool :=
  match st.textColor, st.bgColor with
  | some a, some b => a == b
  | none, none => true
  | _, _ => false

/-! ### Rasterising fill calls into a canvas (array of `colour + 1`, 0 = untouched) -/

private def tlCallArea : Call → Option Rect
  | .fillContiguous a _ => if a.isZeroSized then none else some a
  | .fillSolid a _ => if a.isZeroSized then none else some a
  | _ => none

/-- (min x, min y, max x + 1, max y + 1) over all non-empty call areas -/
private def tlEnvelope (calls : List Call) : Option (Int × Int × Int × Int) :=
  calls.foldl (fun acc c =>
    match tlCallArea c with
    | none => acc
    | some a =>
      let x1 := a.tl.x + (a.size.w : Int)
      let y1 := a.tl.y + (a.size.h : Int)
      match acc with
      | none => some (a.tl.x, a.tl.y, x1, y1)
      | some (ax, ay, bx, by') => some (min ax a.tl.x, min ay a.tl.y, max bx x1, max by' y1)) none

private def tlPaintRow (cv : Array Nat) (base w : Nat) (col : Nat → Nat) (row : Nat) : Array Nat :=
  (List.range w).foldl (fun cv i => cv.set! (base + i) (col (row * w + i) + 1)) cv

private def tlPaint (x0 y0 : Int) (W : Nat) (cv : Array Nat) : Call → Array Nat
  | .fillContiguous a cs =>
    let arr := cs.toArray
    let n := arr.size
    (List.range a.size.h).foldl (fun cv r =>
      (List.range a.size.w).foldl (fun cv i =>
        let k := r * a.size.w + i
        if k < n then cv.set! (((a.tl.y - y0).toNat + r) * W + (a.tl.x - x0).toNat + i) (arr[k]! + 1) else cv) cv) cv
  | .fillSolid a c =>
    (List.range a.size.h).foldl (fun cv r =>
      tlPaintRow cv (((a.tl.y - y0).toNat + r) * W + (a.tl.x - x0).toNat) a.size.w (fun _ => c) r) cv
  | _ => cv

private def tlP31 : UInt64 := 2147483647

/-- `<n>:<hash>:<extent>` of the picture a list of fill calls leaves (same text as `fmt_px` of the harness). -/
private def tlFmtPx (calls : List Call) : String :=
  match tlEnvelope calls with
  | none => "0:0:-"
  | some (x0, y0, x1, y1) =>
    let W := (x1 - x0).toNat
    let H := (y1 - y0).toNat
    let cv := calls.foldl (tlPaint x0 y0 W) (Array.replicate (W * H) 0)
    -- scan row-major: count, hash, extent
    let init : Nat × UInt64 × Option (Int × Int × Int × Int) := (0, 0, none)
    let (cnt, h, ext) := (List.range H).foldl (fun acc r =>
      (List.range W).foldl (fun (acc : Nat × UInt64 × Option (Int × Int × Int × Int)) i =>
        let v := cv[r * W + i]!
        if v == 0 then acc
        else
          let (cnt, h, ext) := acc
          let x := x0 + (i : Int)
          let y := y0 + (r : Int)
          let t : Nat := ((y + 1048576).toNat * 2097152 + (x + 1048576).toNat) * 65536 + v
          let h' := (h * 1000003 + (UInt64.ofNat t) % tlP31) % tlP31
          let ext' := match ext with
            | none => some (x, y, x, y)
            | some (a, b, c, d) => some (min a x, min b y, max c x, max d y)
          (cnt + 1, h', ext')) acc) init
    let e := match ext with
      | none => "-"
      | some (a, b, c, d) => s!"{a},{b},{c - a + 1},{d - b + 1}"
    s!"{cnt}:{h.toNat}:{e}"

private def tlNoAtlas : Pt → Bool := fun _ => false

private def tlLayoutResult (f : MonoFont) (tx : Text) : String :=
  let (calls, next) := draw f tlNoAtlas tx
  let px := if tlDetermined tx.style then tlFmtPx calls else "-"
  s!"next={fmtPt next} bb={fmtRect (boundingBox f tx)} px={px}"

def handleText (stream : String) (t : Toks) : Option String :=
  match stream with
  | "text.layout" =>
    let (spec, t) := t.str
    match tlParseFont spec with
    | none => some "nofont"
    | some f =>
      let (tx, _) := tlParseLayout t
      some (tlLayoutResult f tx)
  | "text.tr" =>
    let (spec, t) := t.str
    match tlParseFont spec with
    | none => some "nofont"
    | some f =>
      let (tx, t) := tlParseLayout t
      let (d, _) := t.pt
      let moved := tx.translate d
      let same := if tx.translateMut d = moved then "same" else "diff"
      some s!"{tlLayoutResult f moved} mut={same}"
  | "text.measure" =>
    let (spec, t) := t.str
    match tlParseFont spec with
    | none => some "nofont"
    | some f =>
      let (bl, t) := t.nat
      let (st, t) := tlStyle t
      let (pos, t) := t.pt
      let (cps, _) := t.natList
      let m := measureString f st cps pos (tlBaseline bl)
      let dn := (f.drawString tlNoAtlas st cps pos (tlBaseline bl)).2
      some s!"bb={fmtRect m.bbox} mnext={fmtPt m.next} dnext={fmtPt dn} lh={fontLineHeight f}"
  | "text.chain" =>
    let (spec, t) := t.str
    match tlParseFont spec with
    | none => some "nofont"
    | some f =>
      let (bl, t) := t.nat
      let (al, t) := t.nat
      let (st, t) := tlStyle t
      let (pos, t) := t.pt
      let (s1, t) := t.natList
      let (s2, _) := t.natList
      let ts : TextStyle := ⟨tlAlignment al, tlBaseline bl, .percent 100⟩
      let n1 := (draw f tlNoAtlas ⟨s1, pos, st, ts⟩).2
      let n2 := (draw f tlNoAtlas ⟨s2, n1, st, ts⟩).2
      let n12 := (draw f tlNoAtlas ⟨s1 ++ s2, pos, st, ts⟩).2
      some s!"n1={fmtPt n1} n2={fmtPt n2} n12={fmtPt n12}"
  | _ => none

end EG.Driver
