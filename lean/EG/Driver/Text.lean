/-
  EG.Driver.Text — model side of the `text.*` correspondence streams (harness/src/m_text.rs).

  Streams (formats documented in m_text.rs):
    text.layout  <fontspec> <bl> <al> <lhk> <lhv> <tc> <bg> <ul> <st> <x> <y> <cps>
                 -> next=<x,y> bb=<rect> px=<n>:<hash>:<extent>|-
    text.tr      <the same tokens> <dx> <dy>     -> the same for `translate(d)` + ` mut=same|diff`
    text.measure <fontspec> <bl> <tc> <bg> <ul> <st> <x> <y> <cps>
                 -> bb=<rect> mnext=<x,y> dnext=<x,y> lh=<n>
    text.chain   <fontspec> <bl> <al> <tc> <bg> <ul> <st> <x> <y> <cps1> <cps2>
                 -> n1=<x,y> n2=<x,y> n12=<x,y>
  The picture (`px`) is the pixel map `canonPix ∘ Call.writesDefault` of the call list of `TextLayout.draw`
  (the `Font.drawString` model) - the `runDefault` map the C14 / C15 theorems speak about. It is printed when
  the op determines it: for harness-built fonts always (their atlas is a fixed bit pattern the model
  recomputes), for built-in fonts only when no pixel depends on a glyph bitmap (text colour == background
  colour, or neither set; the atlas handed to the model is then irrelevant, all-off here).
-/
import EG.Driver.Util
import EG.Model.TextLayout
namespace EG.Driver
open EG EG.Font EG.TextLayout

private def tlFields (s : String) : List String := s.splitOn ":"

/-- The fixed bit pattern of the harness-built atlas (m_text.rs `with_font`): bit `(x, y)` of the
`16 cw x 6 ch` image is on iff `(7x + 3y + xy) mod 5 < 2`. -/
private def tlCustomAtlas (iw ih : Nat) : Pt → Bool := fun p =>
  decide (0 ≤ p.x ∧ 0 ≤ p.y ∧ p.x < (iw : Int) ∧ p.y < (ih : Int)) &&
    decide ((p.x.toNat * 7 + p.y.toNat * 3 + p.x.toNat * p.y.toNat) % 5 < 2)

/-- `b:<fid>` or `c:<cw>:<ch>:<sp>:<bl>:<ulOff>:<ulH>:<stOff>:<stH>` (harness-built font: mapping
`"\0 ~"`, replacement 31, atlas of 16 x 6 cells). Second component: the atlas bits when the op determines
them (harness-built fonts), `none` for built-in fonts (their bits are C14's input, not part of a `text.*` op). -/
private def tlParseFont (s : String) : Option (MonoFont × Option (Pt → Bool)) :=
  match tlFields s with
  | ["b", fid] =>
    match Generated.fontTable[parseNat fid]? with
    | some r => some (fontOfRec r, none)
    | none => none
  | ["c", cw, ch, sp, bl, uo, uh, so, sh] =>
    let m : StrMapping := ⟨[0, 32, 126], 31⟩
    some ({ imgW := 16 * parseNat cw, imgH := 6 * parseNat ch, cw := parseNat cw, ch := parseNat ch,
            spacing := parseNat sp, baseline := parseNat bl, ulOff := parseNat uo, ulH := parseNat uh,
            stOff := parseNat so, stH := parseNat sh, index := m.index },
          some (tlCustomAtlas (16 * parseNat cw) (6 * parseNat ch)))
  | _ => none

private def tlOptColor (s : String) : Option Color := if s == "-" then none else some (parseNat s)

private def tlDeco (s : String) : DecoColor :=
  if s == "n" then .none else if s == "t" then .textColor else .custom (parseNat s)

private def tlBaseline : Nat → Baseline
  | 0 => .top
  | 1 => .bottom
  | 2 => .middle
  | _ => .alphabetic

private def tlAlignment : Nat → Alignment
  | 0 => .left
  | 1 => .center
  | _ => .right

private def tlStyle (t : Toks) : Style × Toks :=
  let (tc, t) := t.str
  let (bg, t) := t.str
  let (ul, t) := t.str
  let (st, t) := t.str
  (⟨tlOptColor tc, tlOptColor bg, tlDeco ul, tlDeco st⟩, t)

/-- the tokens of a layout op after the fontspec -/
private def tlParseLayout (t : Toks) : Text × Toks :=
  let (bl, t) := t.nat
  let (al, t) := t.nat
  let (lhk, t) := t.str
  let (lhv, t) := t.nat
  let (st, t) := tlStyle t
  let (pos, t) := t.pt
  let (cps, t) := t.natList
  let lh : LineHeight := if lhk == "p" then .pixels lhv else .percent lhv
  (⟨cps, pos, st, ⟨tlAlignment al, tlBaseline bl, lh⟩⟩, t)

private def tlDetermined (st : Style) : Bool :=
  match st.textColor, st.bgColor with
  | some a, some b => a == b
  | none, none => true
  | _, _ => false

/-! ### The picture a call list leaves: `canonPix ∘ writesDefault`, the pixel map the theorems are about

The picture is the final pixel map of `runDefault bigBox calls` (EG.Model.Target: every call lowered the
way the draw_iter-only target R1 receives it, last write wins), listed row-major by `canonPix` exactly as
Driver/Font.lean does for `font.draw`. Every kind of call (`drawIter` included) takes part. -/

/-- the harness's unbounded recording box -/
private def tlBigBox : Rect := ⟨⟨-1048576, -1048576⟩, ⟨2097152, 2097152⟩⟩

private def tlP31 : UInt64 := 2147483647

/-- `<n>:<hash>:<extent>` of the pixel map a call list leaves (same text as `fmt_px` of the harness). -/
private def tlFmtPx (calls : List Call) : String :=
  let px := canonPix (calls.flatMap (Call.writesDefault tlBigBox))
  let init : Nat × UInt64 × Option (Int × Int × Int × Int) := (0, 0, none)
  let (cnt, h, ext) := px.foldl (fun (acc : Nat × UInt64 × Option (Int × Int × Int × Int)) pc =>
    let (cnt, h, ext) := acc
    let x := pc.1.x
    let y := pc.1.y
    let t : Nat := ((y + 1048576).toNat * 2097152 + (x + 1048576).toNat) * 65536 + (pc.2 + 1)
    let h' := (h * 1000003 + (UInt64.ofNat t) % tlP31) % tlP31
    let ext' := match ext with
      | none => some (x, y, x, y)
      | some (a, b, c, d) => some (min a x, min b y, max c x, max d y)
    (cnt + 1, h', ext')) init
  let e := match ext with
    | none => "-"
    | some (a, b, c, d) => s!"{a},{b},{c - a + 1},{d - b + 1}"
  s!"{cnt}:{h.toNat}:{e}"

private def tlNoAtlas : Pt → Bool := fun _ => false

/-- The picture is printed when the op determines it: always for harness-built fonts (atlas known), for
built-in fonts only when no pixel depends on a glyph bitmap. -/
private def tlLayoutResult (fa : MonoFont × Option (Pt → Bool)) (tx : Text) : String :=
  let f := fa.1
  let (calls, next) := draw f (fa.2.getD tlNoAtlas) tx
  let px := if fa.2.isSome || tlDetermined tx.style then tlFmtPx calls else "-"
  s!"next={fmtPt next} bb={fmtRect (boundingBox f tx)} px={px}"

def handleText (stream : String) (t : Toks) : Option String :=
  match stream with
  | "text.layout" =>
    let (spec, t) := t.str
    match tlParseFont spec with
    | none => some "nofont"
    | some fa =>
      let (tx, _) := tlParseLayout t
      some (tlLayoutResult fa tx)
  | "text.tr" =>
    let (spec, t) := t.str
    match tlParseFont spec with
    | none => some "nofont"
    | some fa =>
      let (tx, t) := tlParseLayout t
      let (d, _) := t.pt
      let moved := tx.translate d
      let same := if tx.translateMut d = moved then "same" else "diff"
      some s!"{tlLayoutResult fa moved} mut={same}"
  | "text.measure" =>
    let (spec, t) := t.str
    match tlParseFont spec with
    | none => some "nofont"
    | some (f, _) =>
      let (bl, t) := t.nat
      let (st, t) := tlStyle t
      let (pos, t) := t.pt
      let (cps, _) := t.natList
      let m := measureString f st cps pos (tlBaseline bl)
      let dn := (f.drawString tlNoAtlas st cps pos (tlBaseline bl)).2
      some s!"bb={fmtRect m.bbox} mnext={fmtPt m.next} dnext={fmtPt dn} lh={fontLineHeight f}"
  | "text.chain" =>
    let (spec, t) := t.str
    match tlParseFont spec with
    | none => some "nofont"
    | some (f, _) =>
      let (bl, t) := t.nat
      let (al, t) := t.nat
      let (st, t) := tlStyle t
      let (pos, t) := t.pt
      let (s1, t) := t.natList
      let (s2, _) := t.natList
      let ts : TextStyle := ⟨tlAlignment al, tlBaseline bl, .percent 100⟩
      let n1 := (draw f tlNoAtlas ⟨s1, pos, st, ts⟩).2
      let n2 := (draw f tlNoAtlas ⟨s2, n1, st, ts⟩).2
      let n12 := (draw f tlNoAtlas ⟨s1 ++ s2, pos, st, ts⟩).2
      some s!"n1={fmtPt n1} n2={fmtPt n2} n12={fmtPt n12}"
  | _ => none

end EG.Driver
