/-
  EG.Driver.C13 — model side of the C13 correspondence streams (harness/src/c13.rs).
-/
import EG.Driver.Util
namespace EG.Driver
open EG

def c13 (_stream : String) (_t : Toks) : Option String := none

end EG.Driver
