/-
  EG.Driver.Adapters — model side of the `adapters.*` correspondence streams (harness/src/m_adapters.rs).

  adapters.run px py pw ph <stack> <calls>
    -> bb=<boxes> l1=<R1 log> m1=<R1 map> l2=<R2 log> m2=<R2 map>
  adapters.runb: the same with the colour maps of the real chain Rgb565 <- BinaryColor <- BinaryColor.
-/
import EG.Driver.Util
import EG.Model.Adapters
namespace EG.Driver
open EG

/-- `x,y,w,h` -/
private def parseRect4 (s : String) : Rect :=
  match (s.splitOn ",") with
  | [x, y, w, h] => ⟨⟨parseInt x, parseInt y⟩, ⟨parseNat w, parseNat h⟩⟩
  | _ => Rect.zero

/-- The colour conversion of the k-th colour-converted adapter counted from the root
(`impl From<L(k+1)> for L(k)` in m_adapters.rs). -/
private def convFn (k : Nat) (c : Color) : Color := 3 * c + k + 1

/-- Second chain (real colour types): `BinaryColor -> Rgb565` (Off -> 0, On -> 0xFFFF) for the
root-most converted adapter, identity `BinaryColor -> BinaryColor` above it. -/
private def convFnB (k : Nat) (c : Color) : Color := if k = 0 then (if c % 2 = 1 then 65535 else 0) else c

/-- adapter stack, root-most first; `v` adapters are numbered from the root -/
private def parseStack (convFn : Nat → Color → Color) (s : String) : Stack :=
  if s == "-" then [] else
  let rec go (parts : List String) (k : Nat) : Stack :=
    match parts with
    | [] => []
    | a :: rest =>
      if a.startsWith "c:" then Adapter.clipped (parseRect4 (a.drop 2).toString) :: go rest k
      else if a.startsWith "r:" then Adapter.cropped (parseRect4 (a.drop 2).toString) :: go rest k
      else if a.startsWith "t:" then
        match ((a.drop 2).toString.splitOn ",") with
        | [x, y] => Adapter.translated ⟨parseInt x, parseInt y⟩ :: go rest k
        | _ => go rest k
      else Adapter.converted (convFn k) :: go rest (k + 1)
  go (s.splitOn "/") 0

private def parsePixel (s : String) : Pt × Color :=
  match s.splitOn "," with
  | [x, y, c] => (⟨parseInt x, parseInt y⟩, parseNat c)
  | _ => (Pt.zero, 0)

private def parseCall (s : String) : Call :=
  if s.startsWith "di:" then
    let body := (s.drop 3).toString
    if body == "-" then Call.drawIter [] else Call.drawIter ((body.splitOn ";").map parsePixel)
  else if s.startsWith "fc:" then
    match (s.drop 3).toString.splitOn ":" with
    | [a, cs] => Call.fillContiguous (parseRect4 a) (parseNatList cs)
    | _ => Call.clear 0
  else if s.startsWith "fs:" then
    match (s.drop 3).toString.splitOn ":" with
    | [a, c] => Call.fillSolid (parseRect4 a) (parseNat c)
    | _ => Call.clear 0
  else Call.clear (parseNat (s.drop 3).toString)

private def parseCalls (s : String) : List Call :=
  if s == "-" then [] else (s.splitOn "|").map parseCall

/-- `Call::fmt` of common.rs -/
private def fmtCall : Call → String
  | .drawIter px => "di:" ++ fmtPix px
  | .fillContiguous a cs => s!"fc:{fmtRect a}:{fmtNats cs}"
  | .fillSolid a c => s!"fs:{fmtRect a}:{c}"
  | .clear c => s!"cl:{c}"

private def fmtLog (cs : List Call) : String := joinOr "|" (cs.map fmtCall)

private def runOp (conv : Nat → Color → Color) (t : Toks) : Option String :=
    let (B, t) := t.rect
    let (st, t) := t.str
    let (cl, _) := t.str
    let stack := parseStack conv st
    let calls := parseCalls cl
    let rootCalls := calls.map (lowerStack B stack)
    let boxes := stackBoxes B stack
    -- R1: everything arrives as draw_iter (trait defaults), R2: the calls themselves
    let log1 := rootCalls.map (fun c => Call.drawIter (c.lowerDefault B))
    let m1 := canonPix (rootCalls.flatMap (Call.writesDefault B))
    let m2 := canonPix (rootCalls.flatMap (Call.writesNative B))
    some s!"bb={joinOr "/" (boxes.map fmtRect)} l1={fmtLog log1} m1={fmtPix m1} l2={fmtLog rootCalls} m2={fmtPix m2}"

def handleAdapters (stream : String) (t : Toks) : Option String :=
  match stream with
  | "adapters.run" => runOp convFn t
  | "adapters.runb" => runOp convFnB t
  | _ => none

end EG.Driver
