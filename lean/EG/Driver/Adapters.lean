/-
  EG.Driver.Adapters — model side of the `adapters.*` correspondence streams (harness/src/m_adapters.rs).
-/
import EG.Driver.Util
namespace EG.Driver
open EG

def handleAdapters (_stream : String) (_t : Toks) : Option String := none

end EG.Driver
