/-
  EG.Driver.C09 — model side of the C09 correspondence streams (harness/src/c09.rs).
-/
import EG.Driver.Util
namespace EG.Driver
open EG

def c09 (_stream : String) (_t : Toks) : Option String := none

end EG.Driver
