/-
  EG.Driver.ShapeView — what the cross-cutting correspondence streams (`styled.*`, `faults.shape`,
  `scale.shape`) observe of one styled primitive, computed from the models, for every shape kind of
  harness/src/shapes.rs:

    rect (EG.Model.StyledRect), circle, ellipse, rrect (EG.Model.Circle / Ellipse / RoundedRect),
    line (EG.Model.ThickLine), poly (EG.Model.ThickPolyline), tri (EG.Model.ThickTriangle): every stroke
      width, alignment and fill / stroke colour option,
    arc (EG.Model.StyledArc), sector (EG.Model.StyledSector): only when the op line carries the hook
      tokens `hk tag lx ly rx ry [bk bnx bny]` (see below).

  `parseShapeView` reads `<shape> <style>` from the tokens and returns the view as a function of the
  translation applied to the primitive, and the remaining tokens.
-/
import EG.Driver.Util
import EG.Model.StyledRect
import EG.Model.CallTranslate
import EG.Model.Circle
import EG.Model.Ellipse
import EG.Model.RoundedRect
import EG.Model.ThickLine
import EG.Model.ThickPolyline
import EG.Model.ThickTriangle
import EG.Model.Triangle
import EG.Model.StyledArc
import EG.Model.StyledSector
namespace EG.Driver
open EG

/-- What the `styled.*` streams observe of one styled shape. Fields are delayed (a stream evaluates
only what its result line shows); `none` = the model function ran out of fuel ("stuck": the result
line is then `stuck`, which never agrees with the real code). -/
structure StyledView where
  calls : Unit → Option (List Call)   -- `draw()` as target calls
  pixels : Unit → Option Writes       -- `pixels()`
  bbox : Unit → Option Rect           -- `bounding_box()` of the styled shape
  fa : Option Rect := none            -- `fill_area().bounding_box()` (closed shapes only)
  sa : Option Rect := none            -- `stroke_area().bounding_box()` (closed shapes only)
  npoints : Unit → Nat                -- number of items of `points()` of the (unstyled) primitive
  pbox : Rect                         -- `bounding_box()` of the (unstyled) primitive
  contains : Option (Pt → Bool) := none   -- `ContainsPoint::contains` of the primitive, where it has one

private def parseOptColor (s : String) : Option Color := if s == "-" then none else some (parseNat s)

private def alignOf : Nat → StrokeAlignment | 0 => .inside | 1 => .center | _ => .outside

/-- style tokens: `fill stroke width align`. -/
private def Toks.style (t : Toks) : Style × Toks :=
  let (f, t) := t.str
  let (s, t) := t.str
  let (w, t) := t.nat
  let (a, t) := t.nat
  (⟨parseOptColor f, parseOptColor s, w, alignOf a⟩, t)

private def rectView (s : Style) (r : Rect) : StyledView :=
  { calls := fun _ => some (StyledRect.drawCalls s r)
    pixels := fun _ => some (StyledRect.pixelsList s r)
    bbox := fun _ => some (StyledRect.styledBoundingBox s r)
    fa := some (StyledRect.fillArea s r)
    sa := some (StyledRect.strokeArea s r)
    npoints := fun _ => r.points.length
    pbox := r
    contains := some r.contains }

private def primStyle (s : Style) : PrimStyle := ⟨s.fill, s.stroke, s.width, s.align⟩

private def circleView (s : Style) (c : Circle) : StyledView :=
  let st := primStyle s
  { calls := fun _ => some (c.drawStyled st)
    pixels := fun _ => some (c.styledPixels st)
    bbox := fun _ => some (c.styledBoundingBox st)
    fa := some (c.fillArea st).boundingBox
    sa := some (c.strokeArea st).boundingBox
    npoints := fun _ => c.points.length
    pbox := c.boundingBox
    contains := some c.contains }

private def ellipseView (s : Style) (e : Ellipse) : StyledView :=
  let st := primStyle s
  { calls := fun _ => some (e.drawStyled st)
    pixels := fun _ => some (e.styledPixels st)
    bbox := fun _ => some (e.styledBoundingBox st)
    fa := some (e.fillArea st).boundingBox
    sa := some (e.strokeArea st).boundingBox
    npoints := fun _ => e.points.length
    pbox := e.boundingBox
    contains := some e.contains }

private def rrectView (s : Style) (r : RoundedRect) : StyledView :=
  { calls := fun _ => some (r.drawStyled s)
    pixels := fun _ => some (r.styledPixels s)
    bbox := fun _ => some (r.styledBoundingBox s)
    fa := some (r.fillArea s).boundingBox
    sa := some (r.strokeArea s).boundingBox
    npoints := fun _ => r.points.length
    pbox := r.boundingBox
    contains := some r.contains }

/-! ### lines, polylines, triangles (every stroke width)

The model functions are the ones the property theorems speak about: `Thick.thickPoints` /
`Thick.styledBoundingBox` (Props/C01/Line.lean, C02/ThickLine.lean, C07/ThickLine.lean),
`Joins.drawStyled` / `Joins.pixels` / `Joins.styledBoundingBox` (Props/C01/Polyline.lean,
C02/Joins*.lean, C07/Joins*.lean), `Joins.triDraw` / `Joins.triPixels` / `Joins.triStyledBoundingBox`
(Props/C01/Triangle.lean, C02/Joins*.lean, C07/Joins*.lean). The few lines between those functions and a
call list / coloured pixel list (pairing points with the stroke colour, one `fill_solid` per
rectangle) repeat `Thick.styledPixels` / `Thick.drawStyled` (Lemmas/ThickTranslate.lean),
`polyStyledCalls` / `polyStyledPixels` / `polyCalls` (Lemmas/C01ThickPoly.lean) and `solidCalls`,
which live in lemma files a driver may not import. -/

/-- `Thick.styledPixels`: the stroke points with `effective_stroke_color()`; nothing without a stroke
colour (`thickPoints` itself yields nothing for width 0). -/
private def lineStyledPixels (l : Line) (w : Nat) (sc : Option Color) : Option Writes :=
  match sc with
  | none => some []
  | some c => (Thick.thickPoints l w).map (·.map (fun p => (p, c)))

/-- `line.into_styled(style)`: `draw_styled` is ONE `draw_iter` call with `pixels()` (also when there
is no pixel); the fill colour and the alignment are not looked at; `styled_bounding_box` looks at the
stroke width only (not at the colour). -/
private def lineView (s : Style) (l : Line) : StyledView :=
  { calls := fun _ => (lineStyledPixels l s.width s.stroke).map (fun px => [Call.drawIter px])
    pixels := fun _ => lineStyledPixels l s.width s.stroke
    bbox := fun _ => Thick.styledBoundingBox l s.width
    npoints := fun _ => (Line.points l).length
    pbox := Rect.withCorners l.start l.stop }

/-- `polyCalls` of Lemmas/C01ThickPoly.lean. -/
private def polyDrawCalls (c : Color) : Joins.PolyDraw → List Call
  | .nothing => []
  | .drawIter pts => [Call.drawIter (pts.map (fun p => (p, c)))]
  | .fillSolids rs => rs.map (fun r => Call.fillSolid r c)

/-- `polyline.into_styled(style)`: no call and no pixel without a stroke colour; the fill colour and
the alignment are not looked at. `untranslated_bounding_box` tests `effective_stroke_color()`: a style
without stroke colour takes the branch of width 0 (`Joins.untranslatedBoundingBox` is stated for a
style WITH a stroke colour, where `effective_stroke_color().is_some()` is `width > 0`). -/
private def polyView (s : Style) (pl : Polyline) : StyledView :=
  { calls := fun _ =>
      match s.stroke with
      | none => some []
      | some c => (Joins.drawStyled pl s.width).map (polyDrawCalls c)
    pixels := fun _ =>
      match s.stroke with
      | none => some []
      | some c => (Joins.pixels pl s.width).map (·.map (fun p => (p, c)))
    bbox := fun _ => Joins.styledBoundingBox pl (if s.stroke.isSome then s.width else 0)
    npoints := fun _ => (Polyline.points pl).length
    pbox := Joins.polylineBoundingBox pl }

private def triAlignOf : StrokeAlignment → Joins.StrokeAlignment
  | .inside => .inside
  | .center => .center
  | .outside => .outside

/-- `triangle.into_styled(style)`: one `fill_solid` per non-empty coloured scanline (`solidCalls`).
`points()` / `contains()` / `bounding_box()` of the unstyled triangle come from `EG.Model.Triangle` (the
model of the `tri.*` streams and of Props/C07/Triangle.lean, C19). -/
private def triView (s : Style) (t : Joins.Tri) : StyledView :=
  let st : Joins.TriStyle := ⟨s.fill, s.stroke, s.width, triAlignOf s.align⟩
  { calls := fun _ => (Joins.triDraw t st).map (·.map (fun rc => Call.fillSolid rc.1 rc.2))
    pixels := fun _ => Joins.triPixels t st
    bbox := fun _ => Joins.triStyledBoundingBox t st
    npoints := fun _ => (Triangle.points ⟨t.v1, t.v2, t.v3⟩).length
    pbox := t.boundingBox
    contains := some (Triangle.contains ⟨t.v1, t.v2, t.v3⟩) }

/-! ### arcs and sectors

The plane sector (operation tag + two normals) and, for sectors, the bevel (kind + normal of the
bevel line) are what the real code computed from the two angles (f32 trigonometry, not modelled for
the default build; hooks `verif_hooks::plane_sector`, `StyledPixelsIterator::verif_bevel`). The
harness appends them to the op line when it GENERATES the op: `... hk tag lx ly rx ry [bk bnx bny]`
after all other tokens. An op line without them (older corpus / replay lines) is not served. -/

private def planeOpOfTag : Nat → PlaneOp
  | 0 => .intersection
  | 1 => .union
  | _ => .entirePlane

/-- The tokens after the `hk` marker. -/
private def hookToks : Toks → Option Toks
  | [] => none
  | t :: ts => if t == "hk" then some ts else hookToks ts

private def arcView (s : Style) (a : Arc) : StyledView :=
  { calls := fun _ => some (a.drawStyled s)
    pixels := fun _ => some (a.styledPixels s)
    bbox := fun _ => some (a.styledBoundingBox s)
    npoints := fun _ => a.points.length
    pbox := a.boundingBox }

private def sectorView (s : Style) (bevel : SectorBevel) (x : Sector) : StyledView :=
  { calls := fun _ => some (x.drawStyled s bevel)
    pixels := fun _ => some (x.styledPixels s bevel)
    bbox := fun _ => some (x.styledBoundingBox s)
    npoints := fun _ => x.points.length
    pbox := x.boundingBox
    contains := some x.contains }

/-- `n` points from the token list. -/
private def styledTakePts : Nat → Toks → List Pt × Toks
  | 0, t => ([], t)
  | n + 1, t =>
    let (p, t) := t.pt
    let (ps, t) := styledTakePts n t
    (p :: ps, t)

/-- `<shape> <style>` (token formats of harness/src/shapes.rs) -> the view of the primitive translated
by `d`, and the tokens after the style. `none`: unknown kind, or an arc / sector without hook tokens. -/
def parseShapeView (t : Toks) : Option ((Pt → StyledView) × Toks) :=
  let (kind, t) := t.str
  match kind with
  | "rect" =>
    let (r, t) := t.rect
    let (s, t) := t.style
    some ((fun d => rectView s (r.translate d)), t)
  | "circle" =>
    let (p, t) := t.pt
    let (d0, t) := t.nat
    let (s, t) := t.style
    some ((fun d => circleView s ((⟨p, d0⟩ : Circle).translate d)), t)
  | "ellipse" =>
    let (p, t) := t.pt
    let (sz, t) := t.sz
    let (s, t) := t.style
    some ((fun d => ellipseView s ((⟨p, sz⟩ : Ellipse).translate d)), t)
  | "rrect" =>
    let (r, t) := t.rect
    let (tl, t) := t.sz
    let (tr, t) := t.sz
    let (br, t) := t.sz
    let (bl, t) := t.sz
    let (s, t) := t.style
    some ((fun d => rrectView s ((⟨r, ⟨tl, tr, br, bl⟩⟩ : RoundedRect).translate d)), t)
  | "line" =>
    let (a, t) := t.pt
    let (b, t) := t.pt
    let (s, t) := t.style
    some ((fun d => lineView s ((⟨a, b⟩ : Line).translate d)), t)
  | "poly" =>
    let (tr, t) := t.pt
    let (n, t) := t.nat
    let (vs, t) := styledTakePts n t
    let (s, t) := t.style
    some ((fun d => polyView s ((⟨tr, vs⟩ : Polyline).translateBy d)), t)
  | "tri" =>
    let (a, t) := t.pt
    let (b, t) := t.pt
    let (c, t) := t.pt
    let (s, t) := t.style
    some ((fun d => triView s ((⟨a, b, c⟩ : Joins.Tri).translate d)), t)
  | "arc" =>
    let (p, t) := t.pt
    let (d0, t) := t.nat
    let (_start, t) := t.int
    let (_sweep, t) := t.int
    let (s, t) := t.style
    match hookToks t with
    | none => none
    | some h =>
      let (tag, h) := h.nat
      let (l, h) := h.pt
      let (r, _) := h.pt
      let ps : PlaneSector := ⟨planeOpOfTag tag, l, r⟩
      some ((fun d => arcView s ((⟨p, d0, ps⟩ : Arc).translate d)), t)
  | "sector" =>
    let (p, t) := t.pt
    let (d0, t) := t.nat
    let (_start, t) := t.int
    let (_sweep, t) := t.int
    let (s, t) := t.style
    match hookToks t with
    | none => none
    | some h =>
      let (tag, h) := h.nat
      let (l, h) := h.pt
      let (r, h) := h.pt
      let (bk, h) := h.nat
      let (bn, _) := h.pt
      let ps : PlaneSector := ⟨planeOpOfTag tag, l, r⟩
      let bevel : SectorBevel :=
        match bk with
        | 0 => none
        | 1 => some (.interior, bn)
        | _ => some (.exterior, bn)
      some ((fun d => sectorView s bevel ((⟨p, d0, ps⟩ : Sector).translate d)), t)
  | _ => none


end EG.Driver
