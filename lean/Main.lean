/-
  egdriver — line-protocol driver of the Lean models.
  Reads one operation per line on stdin (`stream tok tok ...`), writes one canonical result line
  per operation on stdout; `skip` for streams that have no model (those lines are not compared).
  Imports model and driver files only (no Mathlib), so it links as a native executable.
-/
import EG.Driver.Rect
import EG.Driver.Raw
import EG.Driver.Fb
import EG.Driver.Image
import EG.Driver.Color
import EG.Driver.Conv
import EG.Driver.Adapters
import EG.Driver.Line
import EG.Driver.Thick
import EG.Driver.Poly
import EG.Driver.Tri
import EG.Driver.Mock
import EG.Driver.Font
import EG.Driver.Text
import EG.Driver.Circle
import EG.Driver.Ellipse
import EG.Driver.Rrect
import EG.Driver.Sector
import EG.Driver.Styled
import EG.Driver.Faults
import EG.Driver.Scale
open EG.Driver

def handlers : List (String → Toks → Option String) := [
  handleRect, handleRaw, handleFb, handleImage, handleColor, handleConv, handleAdapters, handleLine, handleThick, handlePoly, handleTri, handleMock, handleFont, handleText, handleCircle, handleEllipse, handleRrect, handleSector, handleStyled, handleFaults, handleScale]

def handle (line : String) : String :=
  match toks line with
  | [] => "skip"
  | stream :: rest =>
    match handlers.findSome? (fun h => h stream rest) with
    | some out => out
    | none => "skip"

partial def loop (hIn : IO.FS.Stream) (hOut : IO.FS.Stream) : IO Unit := do
  let line ← hIn.getLine
  if line.isEmpty then return ()
  hOut.putStrLn (handle line)
  loop hIn hOut

def main : IO Unit := do
  let hIn ← IO.getStdin
  let hOut ← IO.getStdout
  loop hIn hOut
  hOut.flush
