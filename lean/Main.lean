/-
  egdriver — line-protocol driver of the Lean models.
  Reads one operation per line on stdin (`stream tok tok ...`), writes one canonical result line
  per operation on stdout; `skip` for streams that have no model (those lines are not compared).
  Imports model and driver files only (no Mathlib), so it links as a native executable.
-/
import EG.Driver.C01
import EG.Driver.C02
import EG.Driver.C03
import EG.Driver.C04
import EG.Driver.C05
import EG.Driver.C06
import EG.Driver.C07
import EG.Driver.C08
import EG.Driver.C09
import EG.Driver.C10
import EG.Driver.C11
import EG.Driver.C12
import EG.Driver.C13
import EG.Driver.C14
import EG.Driver.C15
import EG.Driver.C16
import EG.Driver.C17
import EG.Driver.C18
import EG.Driver.C19
import EG.Driver.C20
open EG.Driver

def handlers : List (String → Toks → Option String) := [
  c01, c02, c03, c04, c05, c06, c07, c08, c09, c10, c11, c12, c13, c14, c15, c16, c17, c18, c19, c20]

def handle (line : String) : String :=
  match toks line with
  | [] => "skip"
  | stream :: rest =>
    match handlers.findSome? (fun h => h stream rest) with
    | some out => out
    | none => "skip"

partial def loop (hIn : IO.FS.Stream) (hOut : IO.FS.Stream) : IO Unit := do
  let line ← hIn.getLine
  if line.isEmpty then return ()
  hOut.putStrLn (handle line)
  loop hIn hOut

def main : IO Unit := do
  let hIn ← IO.getStdin
  let hOut ← IO.getStdout
  loop hIn hOut
  hOut.flush
