-- Root of the `EG` library: models, lemmas and property theorems for embedded-graphics.
import EG.Basic.Core
import EG.Model.Rect
import EG.Lemmas.Rect
import EG.Lemmas.RectPoints
import EG.Props.C16
