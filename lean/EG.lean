-- Root of the `EG` library (models, lemmas and property theorems for embedded-graphics).
-- The lakefile globs `EG.+`, so `lake build EG` builds every module under EG/.
import EG.Basic.Core
