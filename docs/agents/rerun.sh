#!/bin/sh
# rerun.sh <slot> <seedid...>: re-run the check of its property against confirmed seeds
slot=$1; shift
for id in "$@"; do
  p=${id%%-*}
  VSEED_SLOT=$slot /verif/tools/seedrun.sh /verif/seeded/$id/patch.diff $p > /tmp/vseed-log-$id.txt 2>&1
  echo "$id rc=$? $(grep -c '^VIOLATION' /tmp/vseed-log-$id.txt) violation(s): $(grep '^\[' /tmp/vseed-log-$id.txt | tail -1 | cut -c1-120)" >> /tmp/rerun-summary.txt
done
