#!/bin/sh
# benrun.sh <slot> <b...> : run ALL checks against each benign patch in a private copy
slot=$1; shift
for b in "$@"; do
  VSEED_SLOT=$slot /verif/tools/seedrun.sh /tmp/sw/out/BEN/$b/patch.diff C01 C02 C03 C04 C05 C06 C07 C08 C09 C10 C11 C12 C13 C14 C15 C16 C17 C18 C19 C20 > /tmp/ben-$b.log 2>&1
  echo "$b rc=$? $(grep -c '^VIOLATION' /tmp/ben-$b.log) violation line(s)" >> /tmp/ben-summary.txt
done
