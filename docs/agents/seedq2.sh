#!/bin/sh
S=$1
export CS_SLOT=$S VSEED_SLOT=$S SEED_FILTER="r5-*"
touch /tmp/seedqueue$S.txt /tmp/seedqueue$S.done
while true; do
  next=$(grep -vxFf /tmp/seedqueue$S.done /tmp/seedqueue$S.txt | head -1)
  if [ -z "$next" ]; then sleep 15; continue; fi
  if [ "$next" = STOP ]; then break; fi
  sh /verif/tools/confirm_seeds.sh $next
  sh /verif/tools/seedtest_all.sh /tmp/seedres-all.txt $next
  echo $next >> /tmp/seedqueue$S.done
done
